package main

import (
	"encoding/json"
	"flag"
	"fmt"
	"os"
	"path/filepath"
	"sort"
	"strconv"
	"strings"
	"time"

	"golang.org/x/tools/go/ssa"
)

const verifRoot = "/verif"

type Unit struct {
	Dir       string   `json:"dir"`
	Patterns  []string `json:"patterns"`
	Functions []string `json:"functions"`
	Thorough  []string `json:"thorough_functions"`
	Trusted   []string `json:"trusted"` // overrides the property-level list for this unit
	// ExtraContracts: additional contract file base names to load besides zz_verif_contracts.go
	// (e.g. zz_verif_contracts_readonly.go: contracts that only one property wants in scope)
	ExtraContracts []string `json:"extra_contract_files"`
	// NoStructural: the property's structural side conditions are about packages this unit does
	// not load; they are checked in the other units
	NoStructural bool `json:"no_structural"`
}

type PropSpec struct {
	ID          string   `json:"id"`
	Title       string   `json:"title"`
	Units       []Unit   `json:"units"`
	Trusted     []string `json:"trusted"`
	NotDecided  []string `json:"not_decided"`
	Assumptions []string `json:"assumptions"`
	Structural  []string `json:"structural"`
	Lemmas      []string `json:"lemmas"`
	MinObls     int      `json:"min_obligations"`
	Replays     []string `json:"known_replays"`
}

func main() {
	if len(os.Args) < 2 {
		usage()
	}
	switch os.Args[1] {
	case "check":
		os.Exit(cmdCheck(os.Args[2:]))
	case "func":
		os.Exit(cmdFunc(os.Args[2:]))
	case "replay":
		os.Exit(cmdReplay(os.Args[2:]))
	case "selftest":
		os.Exit(cmdSelftest(os.Args[2:]))
	default:
		usage()
	}
}

func usage() {
	fmt.Fprintln(os.Stderr, "usage: gvc check <id> [--tier quick|thorough] | gvc func ... | gvc replay <file> | gvc selftest <id>")
	os.Exit(2)
}

func loadPropSpec(id string) (*PropSpec, error) {
	data, err := os.ReadFile(filepath.Join(verifRoot, "props", id+".json"))
	if err != nil {
		return nil, err
	}
	var ps PropSpec
	if err := json.Unmarshal(data, &ps); err != nil {
		return nil, fmt.Errorf("props/%s.json: %v", id, err)
	}
	return &ps, nil
}

// loadContracts parses the trusted specs and the zz_verif_contracts.go files of the loaded
// in-repo packages.
func loadContracts(P *Program, trusted []string, overlay map[string][]byte, extra ...string) (*ContractSet, []string, error) {
	cs := newContractSet()
	cs.Ghosts["held"] = &GhostDecl{Name: "held", Type: "map[ptr]bool", Src: "builtin"}
	cs.Ghosts["closed"] = &GhostDecl{Name: "closed", Type: "map[ptr]bool", Src: "builtin"}
	cs.Ghosts["onceDone"] = &GhostDecl{Name: "onceDone", Type: "map[ptr]bool", Src: "builtin"}
	cs.Ghosts["select"] = &GhostDecl{Name: "select", Type: "mathint", Src: "builtin"}
	cs.Ghosts["sends"] = &GhostDecl{Name: "sends", Type: "mathint", Src: "builtin"}
	var files []string
	tdir := filepath.Join(verifRoot, "contracts", "trusted")
	if len(trusted) == 0 {
		ents, _ := os.ReadDir(tdir)
		for _, e := range ents {
			if strings.HasSuffix(e.Name(), ".spec") {
				trusted = append(trusted, e.Name())
			}
		}
	}
	sort.Strings(trusted)
	for _, t := range trusted {
		f := filepath.Join(tdir, t)
		if err := cs.parseContractFile(f, ""); err != nil {
			return nil, nil, err
		}
		files = append(files, f)
	}
	var paths []string
	for p := range P.ByPath {
		paths = append(paths, p)
	}
	sort.Strings(paths)
	for _, path := range paths {
		pkg := P.ByPath[path]
		if !strings.HasPrefix(path, "go.opentelemetry.io/collector") {
			continue
		}
		for _, gf := range pkg.CompiledGoFiles {
			if base := filepath.Base(gf); base != "zz_verif_contracts.go" && !contains(extra, base) {
				continue
			}
			var err error
			if ov, ok := overlay[gf]; ok {
				err = cs.parseContractText(string(ov), gf, path)
			} else {
				err = cs.parseContractFile(gf, path)
			}
			if err != nil {
				return nil, nil, err
			}
			files = append(files, gf)
		}
	}
	return cs, files, nil
}

type runOutput struct {
	Results       []*FuncResult
	ContractFiles []string
	EngineErrs    []string
	LoadS         float64
	StructuralN   int
}

// runUnits loads and verifies all units of a property.
func runUnits(ps *PropSpec, opts Options, overlay map[string][]byte) *runOutput {
	out := &runOutput{}
	for _, u := range ps.Units {
		t0 := time.Now()
		P, err := loadProgram(u.Dir, u.Patterns, overlay)
		if err != nil {
			out.EngineErrs = append(out.EngineErrs, fmt.Sprintf("load %s: %v", u.Dir, err))
			continue
		}
		trusted := ps.Trusted
		if len(u.Trusted) > 0 {
			trusted = u.Trusted
		}
		cs, files, err := loadContracts(P, trusted, overlay, u.ExtraContracts...)
		if err != nil {
			out.EngineErrs = append(out.EngineErrs, fmt.Sprintf("contracts: %v", err))
			continue
		}
		out.ContractFiles = append(out.ContractFiles, files...)
		out.LoadS += time.Since(t0).Seconds()
		V := newVerifier(P, cs, opts)
		fns := append([]string{}, u.Functions...)
		if opts.Tier == "thorough" {
			fns = append(fns, u.Thorough...)
		}
		var keys []string
		for _, f := range fns {
			if strings.HasSuffix(f, "*") {
				pre := strings.TrimSuffix(f, "*")
				var ks []string
				for k, fc := range cs.Funcs {
					if strings.HasPrefix(k, pre) && !fc.Trusted {
						ks = append(ks, k)
					}
				}
				sort.Strings(ks)
				if len(ks) == 0 {
					out.EngineErrs = append(out.EngineErrs, fmt.Sprintf("no contract matches %s", f))
				}
				keys = append(keys, ks...)
			} else {
				keys = append(keys, f)
			}
		}
		var results []*FuncResult
		for _, k := range keys {
			if len(opts.OnlyFuncs) > 0 {
				m := false
				for _, of := range opts.OnlyFuncs {
					if strings.Contains(k, of) {
						m = true
					}
				}
				if !m {
					continue
				}
			}
			fc := cs.Funcs[k]
			fn := P.Funcs[k]
			if fc == nil && strings.HasSuffix(k, ".init") && fn != nil {
				fc = &FuncContract{Key: k, ModAll: true, Loops: map[int]*LoopContract{}, File: "(synthesised for package init)"}
			}
			if fc == nil {
				out.EngineErrs = append(out.EngineErrs, fmt.Sprintf("function %s has no contract (contracts stopped binding)", k))
				continue
			}
			if fn == nil {
				out.EngineErrs = append(out.EngineErrs, fmt.Sprintf("contract %s (%s:%d) names a function that does not exist in the loaded packages", k, fc.File, fc.Line))
				continue
			}
			results = append(results, V.verifyWithCandidates(fn, fc))
		}
		// lemmas of the contract files whose package has a function under verification
		lemPkgs := map[string]bool{}
		for _, r := range results {
			if f := P.Funcs[r.Key]; f != nil {
				if pk := V.pkgOfKey(r.Key); pk != nil {
					lemPkgs[pk.Path()] = true
				}
			}
		}
		if len(opts.OnlyFuncs) == 0 {
			if lr := V.verifyLemmas(lemPkgs); lr != nil {
				results = append(results, lr)
			}
		}
		for _, sc := range ps.Structural {
			if u.NoStructural {
				break
			}
			n, viol := runStructural(sc, P)
			out.StructuralN += n
			for _, sv := range viol {
				out.EngineErrs = append(out.EngineErrs, "structural: "+sc+": "+sv)
			}
		}
		for _, sv := range V.structuralGlobalStores() {
			out.EngineErrs = append(out.EngineErrs, "structural: "+sv)
		}
		V.solveAll(results)
		for _, r := range results {
			r.ctx = nil
		}
		out.Results = append(out.Results, results...)
	}
	return out
}

func envInt(name string, def int) int {
	if s := os.Getenv(name); s != "" {
		if n, err := strconv.Atoi(s); err == nil {
			return n
		}
	}
	return def
}

func cmdCheck(args []string) int {
	fs := flag.NewFlagSet("check", flag.ExitOnError)
	tier := fs.String("tier", "", "quick|thorough")
	verbose := fs.Bool("v", false, "verbose")
	keep := fs.Bool("keep", false, "keep SMT files")
	only := fs.String("only", "", "only functions containing this substring")
	onlyO := fs.String("obl", "", "only obligations containing this substring")
	timeout := fs.Int("timeout", 0, "per-obligation timeout (s)")
	if len(args) < 1 {
		usage()
	}
	id := args[0]
	_ = fs.Parse(args[1:])
	if *tier == "" {
		*tier = os.Getenv("VERIF_TIER")
	}
	if *tier == "" {
		*tier = "quick"
	}
	t0 := time.Now()
	ps, err := loadPropSpec(id)
	if err != nil {
		fmt.Fprintln(os.Stderr, err)
		return 2
	}
	opts := Options{TimeoutS: 30, Tier: *tier, Verbose: *verbose, KeepSMT: *keep, WorkDir: mkWorkDir()}
	if *tier == "thorough" {
		opts.TimeoutS = 120
		opts.TwoSolvers = true
	}
	if *timeout > 0 {
		opts.TimeoutS = *timeout
	}
	if *only != "" {
		opts.OnlyFuncs = strings.Split(*only, ",")
	}
	opts.OnlyOblig = *onlyO
	defer func() {
		if !*keep {
			os.RemoveAll(opts.WorkDir)
		} else {
			fmt.Println("SMT files kept in", opts.WorkDir)
		}
	}()
	out := runUnits(ps, opts, nil)
	partial := *only != "" || *onlyO != ""
	rep := buildReport(ps, out, opts, time.Since(t0).Seconds(), partial)
	if *tier == "thorough" && !partial {
		runThoroughExtras(ps, rep, opts)
	}
	rep.WallS = time.Since(t0).Seconds()
	printReport(rep, *verbose)
	if !partial {
		if err := writeEvidence(rep); err != nil {
			fmt.Fprintln(os.Stderr, "evidence:", err)
			return 2
		}
	}
	if rep.Violations > 0 {
		return 1
	}
	return 0
}

// cmdFunc: development helper — verify functions of ad-hoc packages.
func cmdFunc(args []string) int {
	fs := flag.NewFlagSet("func", flag.ExitOnError)
	dir := fs.String("dir", ".", "module dir relative to /repo")
	pk := fs.String("pkg", "", "comma separated import paths")
	fnp := fs.String("fn", "", "comma separated function keys (or prefix*)")
	keep := fs.Bool("keep", false, "keep smt")
	timeout := fs.Int("timeout", 20, "timeout")
	dump := fs.Bool("dump", false, "dump SSA of the functions")
	_ = fs.Parse(args)
	ps := &PropSpec{ID: "adhoc", Units: []Unit{{Dir: *dir, Patterns: strings.Split(*pk, ","), Functions: strings.Split(*fnp, ",")}}}
	opts := Options{TimeoutS: *timeout, Tier: "quick", Verbose: true, KeepSMT: *keep, WorkDir: mkWorkDir()}
	if *dump {
		P, err := loadProgram(*dir, strings.Split(*pk, ","), nil)
		if err != nil {
			fmt.Println(err)
			return 2
		}
		for _, k := range strings.Split(*fnp, ",") {
			for name, f := range P.Funcs {
				if strings.Contains(name, strings.TrimSuffix(k, "*")) {
					fmt.Println("==", name)
					f.WriteTo(os.Stdout)
					dumpLoops(f)
				}
			}
		}
		return 0
	}
	out := runUnits(ps, opts, nil)
	rep := buildReport(ps, out, opts, 0, true)
	printReport(rep, true)
	if *keep {
		fmt.Println("SMT files kept in", opts.WorkDir)
	} else {
		os.RemoveAll(opts.WorkDir)
	}
	if rep.Violations > 0 {
		return 1
	}
	return 0
}

func dumpLoops(f *ssa.Function) {
	for _, b := range f.Blocks {
		for _, s := range b.Succs {
			if s.Dominates(b) {
				fmt.Printf("  back edge %d -> %d (%s)\n", b.Index, s.Index, s.Comment)
			}
		}
	}
}
