package main

import (
	"fmt"
	"go/token"
	"go/types"
	"strings"

	"golang.org/x/tools/go/ssa"
)

type calleeInfo struct {
	key     string
	keys    []string // candidate keys, most specific first
	fn      *ssa.Function
	fc      *FuncContract
	pure    bool
	closure *closureVal
	invoke  bool
	sig     *types.Signature
	dynamic bool
}

func originOf(f *ssa.Function) *ssa.Function {
	if o := f.Origin(); o != nil {
		return o
	}
	return f
}

// resolveCallee determines what a call refers to and which contract (if any) governs it.
func (fr *Frame) resolveCallee(cc *ssa.CallCommon) *calleeInfo {
	ci := &calleeInfo{sig: cc.Signature()}
	V := fr.c.V
	switch {
	case cc.IsInvoke():
		ci.invoke = true
		m := cc.Method
		if recv := m.Type().(*types.Signature).Recv(); recv != nil {
			if n, ok := types.Unalias(recv.Type()).(*types.Named); ok {
				ci.keys = append(ci.keys, ifaceMethodKey(n, m.Name()))
			}
		}
		if n, ok := types.Unalias(cc.Value.Type()).(*types.Named); ok {
			ci.keys = append(ci.keys, ifaceMethodKey(n, m.Name()))
		}
		if len(ci.keys) == 0 {
			ci.keys = append(ci.keys, "(interface)."+m.Name())
		}
	default:
		if f := cc.StaticCallee(); f != nil {
			if mc, ok := cc.Value.(*ssa.MakeClosure); ok {
				ci.closure = fr.findClosure(mc)
			}
			f = originOf(f)
			ci.fn = f
			if real, ok := V.P.Funcs[funcKey(f)]; ok {
				ci.fn = real
			}
			ci.keys = append(ci.keys, funcKey(f))
		} else {
			ci.dynamic = true
			// known closure value flowing through SSA?
			if cv := fr.findClosureVal(cc.Value); cv != nil {
				ci.closure = cv
				ci.fn = cv.mc.Fn.(*ssa.Function)
				ci.keys = append(ci.keys, funcKey(ci.fn))
				ci.dynamic = false
			} else {
				ci.keys = append(ci.keys, dynamicKey(fr.fn, cc.Value))
				// fallback: contract by named function type (e.g. context.CancelFunc)
				if n, ok := types.Unalias(cc.Value.Type()).(*types.Named); ok && n.Obj().Pkg() != nil {
					ci.keys = append(ci.keys, n.Obj().Pkg().Path()+"."+n.Obj().Name())
				}
			}
		}
	}
	// assumptions local to the package of the function under verification come first
	if tp := fr.topFrame().fn; tp != nil {
		pk := ""
		for f := tp; f != nil; f = f.Parent() {
			if f.Pkg != nil {
				pk = f.Pkg.Pkg.Path()
				break
			}
		}
		if pk == "" {
			if p := V.pkgOfKey(funcKey(originOf(tp))); p != nil {
				pk = p.Path()
			}
		}
		if la := V.CS.LocalAssumes[pk]; la != nil {
			for _, k := range ci.keys {
				if fc, ok := la[k]; ok {
					ci.fc = fc
					ci.key = k
					break
				}
			}
		}
	}
	for _, k := range ci.keys {
		if ci.fc != nil {
			break
		}
		if fc, ok := V.CS.Funcs[k]; ok {
			ci.fc = fc
			ci.key = k
			break
		}
	}
	if ci.key == "" {
		ci.key = ci.keys[0]
	}
	if ci.fc == nil {
		for _, k := range ci.keys {
			if V.isPure(k) {
				ci.pure = true
			}
		}
	} else if ci.fc.Pure && len(ci.fc.Ensures) == 0 && len(ci.fc.Requires) == 0 {
		ci.pure = true
	}
	return ci
}

func ifaceMethodKey(n *types.Named, method string) string {
	pkg := ""
	if n.Obj().Pkg() != nil {
		pkg = n.Obj().Pkg().Path() + "."
	}
	return fmt.Sprintf("%s(%s).%s", pkg, n.Obj().Name(), method)
}

// dynamicKey names a call through a function value: struct field, parameter or captured variable.
func dynamicKey(fn *ssa.Function, v ssa.Value) string {
	switch x := v.(type) {
	case *ssa.UnOp:
		if fa, ok := x.X.(*ssa.FieldAddr); ok {
			st := fa.X.Type().Underlying().(*types.Pointer).Elem()
			return structKey(st) + "#" + st.Underlying().(*types.Struct).Field(fa.Field).Name()
		}
		if fv, ok := x.X.(*ssa.FreeVar); ok {
			return funcKey(fn) + "#" + fv.Name()
		}
		if g, ok := x.X.(*ssa.Global); ok {
			return globalKey(g)
		}
	case *ssa.Field:
		st := x.X.Type()
		return structKey(st) + "#" + st.Underlying().(*types.Struct).Field(x.Field).Name()
	case *ssa.Parameter:
		return funcKey(fn) + "#" + x.Name()
	case *ssa.FreeVar:
		return funcKey(fn) + "#" + x.Name()
	case *ssa.Extract:
		if lk, ok := x.Tuple.(*ssa.Lookup); ok && x.Index == 0 {
			if _, isMap := lk.X.Type().Underlying().(*types.Map); isMap {
				return dynamicKey(fn, lk.X) + "[]"
			}
		}
		// the function returned by a call: <callee>#result<i>
		if cl, ok := x.Tuple.(*ssa.Call); ok {
			if k := commonKey(&cl.Call); k != "" {
				return fmt.Sprintf("%s#result%d", k, x.Index)
			}
		}
	case *ssa.Call:
		if k := commonKey(&x.Call); k != "" {
			return k + "#result0"
		}
	case *ssa.Lookup:
		if _, isMap := x.X.Type().Underlying().(*types.Map); isMap {
			return dynamicKey(fn, x.X) + "[]"
		}
	}
	return funcKey(fn) + "#dynamic:" + v.Name()
}

// commonKey: the contract key of a statically named callee or interface method ("" otherwise).
func commonKey(cc *ssa.CallCommon) string {
	if cc.IsInvoke() {
		if recv := cc.Method.Type().(*types.Signature).Recv(); recv != nil {
			if n, ok := types.Unalias(recv.Type()).(*types.Named); ok {
				return ifaceMethodKey(n, cc.Method.Name())
			}
		}
		if n, ok := types.Unalias(cc.Value.Type()).(*types.Named); ok {
			return ifaceMethodKey(n, cc.Method.Name())
		}
		return ""
	}
	if f := cc.StaticCallee(); f != nil {
		return funcKey(originOf(f))
	}
	return ""
}

func (fr *Frame) findClosure(mc *ssa.MakeClosure) *closureVal {
	for f := fr; f != nil; f = f.parent {
		if cv, ok := f.closures[mc]; ok {
			return cv
		}
	}
	return nil
}

func (fr *Frame) findClosureVal(v ssa.Value) *closureVal {
	if mc, ok := v.(*ssa.MakeClosure); ok {
		return fr.findClosure(mc)
	}
	return nil
}

func (v *Verifier) isPure(key string) bool {
	for _, p := range v.CS.Pures {
		if strings.HasSuffix(p.Pattern, "*") {
			if strings.HasPrefix(key, strings.TrimSuffix(p.Pattern, "*")) {
				return true
			}
		} else if p.Pattern == key {
			return true
		}
	}
	return false
}

// signatureOf finds the signature and parameter names (receiver first) a contract refers to.
func (v *Verifier) signatureOf(fc *FuncContract) (*types.Signature, []string) {
	var sig *types.Signature
	var names []string
	if f, ok := v.P.Funcs[fc.Key]; ok {
		sig = f.Signature
		for _, p := range f.Params {
			names = append(names, p.Name())
		}
	} else {
		sig = v.lookupSignature(fc.Key)
		if sig != nil {
			if sig.Recv() != nil {
				n := sig.Recv().Name()
				if n == "" || n == "_" {
					n = "self"
				}
				names = append(names, n)
			}
			for i := 0; i < sig.Params().Len(); i++ {
				names = append(names, sig.Params().At(i).Name())
			}
		}
	}
	if len(fc.ParamNames) > 0 {
		names = append([]string{}, fc.ParamNames...)
	}
	return sig, names
}

// lookupSignature resolves keys of external functions, interface methods and func-typed fields.
func (v *Verifier) lookupSignature(key string) *types.Signature {
	if i := strings.Index(key, "#"); i >= 0 {
		// pkg.T#field
		tk := key[:i]
		j := strings.LastIndex(tk, ".")
		if j < 0 {
			return nil
		}
		p := v.P.ByPath[tk[:j]]
		if p == nil {
			return nil
		}
		obj := p.Types.Scope().Lookup(tk[j+1:])
		if obj == nil {
			return nil
		}
		st, ok := obj.Type().Underlying().(*types.Struct)
		if !ok {
			return nil
		}
		path, ft := findField(st, key[i+1:])
		if path == nil {
			return nil
		}
		sig, _ := ft.Underlying().(*types.Signature)
		return sig
	}
	// pkg.(T).M | pkg.(*T).M | pkg.F
	if i := strings.Index(key, ".("); i >= 0 {
		pkgPath := key[:i]
		rest := key[i+2:]
		j := strings.Index(rest, ").")
		if j < 0 {
			return nil
		}
		tn := strings.TrimPrefix(rest[:j], "*")
		mn := rest[j+2:]
		p := v.P.ByPath[pkgPath]
		if p == nil {
			return nil
		}
		obj := p.Types.Scope().Lookup(tn)
		if obj == nil {
			return nil
		}
		ms := types.NewMethodSet(types.NewPointer(obj.Type()))
		if types.IsInterface(obj.Type()) {
			ms = types.NewMethodSet(obj.Type())
		}
		for k := 0; k < ms.Len(); k++ {
			if ms.At(k).Obj().Name() == mn {
				sig := ms.At(k).Obj().Type().(*types.Signature)
				return sig
			}
		}
		return nil
	}
	j := strings.LastIndex(key, ".")
	if j < 0 {
		return nil
	}
	p := v.P.ByPath[key[:j]]
	if p == nil {
		return nil
	}
	obj := p.Types.Scope().Lookup(key[j+1:])
	if obj == nil {
		return nil
	}
	sig, _ := obj.Type().Underlying().(*types.Signature)
	return sig
}

// pkgOfKey returns the types.Package a contract key lives in (for name resolution).
func (v *Verifier) pkgOfKey(key string) *types.Package {
	k := key
	if i := strings.Index(k, "#"); i >= 0 {
		k = k[:i]
	}
	if i := strings.Index(k, ".("); i >= 0 {
		k = k[:i]
	} else if j := strings.LastIndex(k, "."); j >= 0 {
		k = k[:j]
		// closures: strip $n
	}
	for k != "" {
		if p := v.P.ByPath[k]; p != nil {
			return p.Types
		}
		j := strings.LastIndex(k, ".")
		if j < 0 {
			break
		}
		k = k[:j]
	}
	return nil
}

// ---- call execution ------------------------------------------------------------------------

func (fr *Frame) execCall(ins ssa.CallInstruction, cc *ssa.CallCommon) []Term {
	c := fr.c
	if b, ok := cc.Value.(*ssa.Builtin); ok {
		return fr.execBuiltin(ins, cc, b)
	}
	ci := fr.resolveCallee(cc)
	fr.curPos = ins.Pos()
	fr.curIns = ins
	if fr.topFrame().isInit {
		if ci.fn != nil && ci.fn.Name() == "init" && ci.fn.Synthetic != "" {
			return nil // initialisation of an imported package: no effect on this package's globals
		}
		if ci.fc == nil && !ci.pure {
			// initialiser expressions of other package-level variables: assumed not to assign
			// the globals named in global invariants (those are checked never to be stored
			// outside init in the loaded packages)
			ci.pure = true
			c.assumed["package initialisers do not assign the globals under a global invariant"] = true
		}
	}
	// argument terms, receiver first for invokes
	var args []Term
	var argTypes []types.Type
	if ci.invoke {
		args = append(args, fr.val(cc.Value))
		argTypes = append(argTypes, cc.Value.Type())
	}
	for _, a := range cc.Args {
		args = append(args, fr.val(a))
		argTypes = append(argTypes, a.Type())
	}
	fr.callSpecAssumesKind(ci, "assume_before", args, argTypes)
	if ci.invoke {
		fr.oblige("safety.nil", "", not(eq(app(SInt, "itag", args[0]), tInt(0))), ins.Pos(), "method call on nil interface")
	}
	if ci.dynamic && !ci.invoke {
		fv := fr.val(cc.Value)
		fr.oblige("safety.nil", "", not(eq(fv, Term{"fn_nil", SFn})), ins.Pos(), "call of nil function value")
	}
	// monitors
	if res, handled := fr.monitorCall(ins, cc, ci, args); handled {
		return res
	}
	// sync.Once.Do(f) with a visible closure: f runs iff the Once has not fired yet
	if ci.key == "sync.(*Once).Do" && len(cc.Args) == 2 {
		if cv := fr.findClosureVal(cc.Args[1]); cv != nil {
			fr.onceDo(ins, args[0], cv)
			return nil
		}
	}
	ord := fr.callOrdinal(ci.key)
	reacquire := fr.callSpecReleases(ci, ins)
	fr.callSpecAsserts(ci, ord, args, argTypes)
	fr.ghostAtCallT(ci, "before", args, argTypes)
	var res []Term
	switch {
	case ci.fc != nil && !ci.fc.Inline:
		res = fr.applyContract(ins, ci, args, argTypes)
	case ci.pure:
		res = fr.freshResults(ci.sig.Results(), "r_"+lastSeg(ci.key))
		c.assumed["pure call: "+shortKey(ci.key)] = true
	case ci.fn != nil && ci.fn.Blocks != nil && fr.canInline(ci.fn):
		res = fr.inline(ins, ci, args)
	default:
		// unknown effect: everything reachable may change, results unconstrained
		c.note("call of %s without contract: all heaps havocked", shortKey(ci.key))
		m := newModSet()
		m.all = true
		c.havocCallee(fr.st, m, "unmodelled call "+shortKey(ci.key))
		res = fr.freshResults(ci.sig.Results(), "r_"+lastSeg(ci.key))
	}
	for _, f := range reacquire {
		f()
	}
	fr.pendingRes, fr.pendingResT = res, ci.sig.Results()
	fr.callSpecAssumesKind(ci, "assume", args, argTypes)
	fr.pendingRes, fr.pendingResT = nil, nil
	fr.ghostAtCallAfterT(ci, args, res, argTypes, ci.sig.Results())
	return res
}

// callSpecReleases: `at call[k] X releases obj.mu` — the callee waits on a condition: the
// monitor of obj.mu is released before the call (invariant asserted) and re-acquired after it
// (protected state havocked, invariant assumed).
func (fr *Frame) callSpecReleases(ci *calleeInfo, ins ssa.CallInstruction) []func() {
	top := fr.topFrame()
	if fr.top != nil || top.fc == nil {
		return nil
	}
	var after []func()
	for _, cs := range top.fc.CallSpecs {
		if cs.Kind != "releases" || !calleeMatches(ci, cs.Callee) {
			continue
		}
		n := top.callOrd["rel:"+cs.Src]
		top.callOrd["rel:"+cs.Src] = n + 1
		if o := fr.srcOrdinal(cs.Callee); o >= 0 {
			n = o
		}
		if cs.Ord >= 0 && cs.Ord != n {
			continue
		}
		sel, ok := cs.E.(ESel)
		if !ok {
			evalFail("releases needs obj.mu")
		}
		env := fr.curEnv()
		objB := env.eval(sel.X)
		pt, ok := objB.Ty.Underlying().(*types.Pointer)
		if !ok {
			evalFail("releases: %s is not a pointer", exprString(sel.X))
		}
		mon := fr.c.V.monitorFor(pt.Elem(), sel.Name)
		if mon == nil {
			evalFail("releases: no monitor for %s", exprString(cs.E))
		}
		path, _ := findField(pt.Elem().Underlying().(*types.Struct), sel.Name)
		mu := fr.c.fieldPtr(objB.T, pt.Elem(), path[0])
		fr.oblige("monitor.held", "", sel2(fr.c.ghost(fr.st, "held"), mu), ins.Pos(), "wait with the mutex held")
		fr.release(mon, objB.T, objB.Ty, mu, ins.Pos(), "wait")
		top.callOrd["fired:"+cs.Src] = 1
		after = append(after, func() { fr.acquire(mon, objB.T, objB.Ty, mu) })
	}
	return after
}

func sel2(arr, idx Term) Term { return sel(arr, idx, SBool) }

// callSpecAssumes: explicit, listed assumptions anchored after a call (`at call[k] X assume e`).
func (fr *Frame) callSpecAssumes(ci *calleeInfo) { fr.callSpecAssumesKind(ci, "assume", nil, nil) }

func (fr *Frame) callSpecAssumesKind(ci *calleeInfo, kind string, args []Term, argTypes []types.Type) {
	top := fr.topFrame()
	if top.fc == nil {
		return
	}
	for _, cs := range top.fc.CallSpecs {
		if cs.Kind != kind || !calleeMatches(ci, cs.Callee) {
			continue
		}
		n := top.callOrd["assume:"+cs.Callee+":"+cs.Src]
		top.callOrd["assume:"+cs.Callee+":"+cs.Src] = n + 1
		if o := fr.srcOrdinal(cs.Callee); o >= 0 {
			n = o
		}
		if cs.Ord >= 0 && cs.Ord != n {
			continue
		}
		env := fr.anchorEnv()
		for i, a := range args {
			var ty types.Type
			if i < len(argTypes) {
				ty = argTypes[i]
			}
			env.vars[fmt.Sprintf("arg%d", i)] = Binding{a, ty}
		}
		for i, r := range fr.pendingRes {
			var ty types.Type
			if fr.pendingResT != nil && i < fr.pendingResT.Len() {
				ty = fr.pendingResT.At(i).Type()
			}
			env.vars[fmt.Sprintf("res%d", i)] = Binding{r, ty}
		}
		nBefore := len(fr.c.facts)
		fr.c.assume(implies(fr.reach, env.mustBool(cs.E)))
		// vacuity guard: the path must stay feasible with the assumption (checked by a pair of
		// satisfiability probes: feasible before, infeasible after = the assumption contradicts the path)
		fr.c.assumeProbes = append(fr.c.assumeProbes, assumeProbe{nBefore: nBefore, nAfter: len(fr.c.facts), reach: fr.reach.S, src: cs.Src})
		top.callOrd["fired:"+cs.Src] = 1
		fr.c.assumed["explicit assumption in contract of "+shortKey(top.fc.Key)+": "+cs.Src] = true
	}
}

func (fr *Frame) callOrdinal(key string) int {
	t := fr.topFrame()
	if fr.top != nil {
		return -2 // calls inside inlined bodies are not anchor targets
	}
	n := t.callOrd[key]
	t.callOrd[key] = n + 1
	return n
}

func (fr *Frame) freshResults(tup *types.Tuple, prefix string) []Term {
	c := fr.c
	var res []Term
	for i := 0; i < tup.Len(); i++ {
		t := tup.At(i).Type()
		r := c.fresh(prefix, c.sortOf(t))
		c.assumeTypeInv(r, t, nil)
		res = append(res, r)
	}
	return res
}

func (fr *Frame) canInline(f *ssa.Function) bool {
	max := fr.c.V.Opts.InlineMax
	if max == 0 {
		max = 8
	}
	if fr.depth >= max {
		return false
	}
	for p := fr; p != nil; p = p.parent {
		if p.fn == f {
			return false
		}
	}
	return true
}

// calleeEnv builds the environment in which a callee's contract is evaluated at a call site.
func (fr *Frame) calleeEnv(ci *calleeInfo, fc *FuncContract, args []Term, argTypes []types.Type, st *State) *Env {
	return fr.calleeEnvDyn(ci, fc, args, argTypes, st, nil)
}

func (fr *Frame) calleeEnvDyn(ci *calleeInfo, fc *FuncContract, args []Term, argTypes []types.Type, st *State, actuals []ssa.Value) *Env {
	_, names := fr.c.V.signatureOf(fc)
	env := &Env{c: fr.c, pkg: fr.c.V.pkgOfKey(fc.Key), vars: map[string]Binding{}, st: st, fr: nil}
	if dp := fr.c.V.P.ByPath[fc.DeclPkg]; dp != nil {
		env.pkg = dp.Types
	}
	if len(names) < len(args) {
		// unnamed parameters: synthesize a0, a1...
		for i := len(names); i < len(args); i++ {
			names = append(names, fmt.Sprintf("a%d", i))
		}
	}
	// a closure's contract may name its captured variables: bind them to the cells' contents
	if ci != nil && ci.closure != nil && ci.fn != nil {
		for i, fv := range ci.fn.FreeVars {
			if pt, ok := fv.Type().Underlying().(*types.Pointer); ok && i < len(ci.closure.binds) {
				env.vars[fv.Name()] = Binding{fr.c.load(st, ci.closure.binds[i], pt.Elem()), pt.Elem()}
			}
		}
	}
	sig, _ := fr.c.V.signatureOf(fc)
	for i, a := range args {
		n := names[i]
		if n == "" || n == "_" {
			n = fmt.Sprintf("a%d", i)
		}
		var ty types.Type
		if sig != nil {
			ty = paramType(sig, i)
		}
		if ty == nil && i < len(argTypes) {
			ty = argTypes[i]
		}
		// prefer the static argument type when the declared type is a type parameter
		if _, isTP := ty.(*types.TypeParam); isTP && i < len(argTypes) {
			ty = argTypes[i]
		}
		env.vars[n] = Binding{a, ty}
		if i < len(actuals) && actuals[i] != nil {
			if mi, ok := actuals[i].(*ssa.MakeInterface); ok {
				if env.dyn == nil {
					env.dyn = map[string]types.Type{}
				}
				env.dyn[n] = mi.X.Type()
			}
		}
	}
	return env
}

func (fr *Frame) applyContract(ins ssa.CallInstruction, ci *calleeInfo, args []Term, argTypes []types.Type) []Term {
	c := fr.c
	fc := ci.fc
	pre := fr.st
	var actuals []ssa.Value
	if cc := ins.Common(); cc != nil {
		if cc.IsInvoke() {
			actuals = append(actuals, cc.Value)
		}
		actuals = append(actuals, cc.Args...)
	}
	envPre := fr.calleeEnvDyn(ci, fc, args, argTypes, pre, actuals)
	short := lastSeg(shortKey(ci.key))
	for _, r := range fc.Requires {
		t, err := envPre.evalBool(r.E)
		if err != nil {
			panic(evalError{fmt.Sprintf("requires of %s: %v", shortKey(fc.Key), err)})
		}
		fr.oblige("call.pre."+short, r.Label, t, ins.Pos(), "precondition of "+shortKey(ci.key)+": "+r.Src)
	}
	// recursion: the termination measure strictly decreases and is bounded below
	if top := fr.topFrame(); top.fc == fc && len(fc.Decreases) > 0 {
		entry := top.entryEnv()
		for _, d := range fc.Decreases {
			before := entry.eval(d.E).T
			now := envPre.eval(d.E).T
			fr.oblige("decreases."+short, d.Label, Term{fmt.Sprintf("(and (<= 0 %s) (< %s %s))", now.S, now.S, before.S), SBool}, ins.Pos(), "recursive call decreases the measure: "+d.Src)
		}
	}
	if fc.Trusted {
		c.assumed["assumed contract: "+shortKey(fc.Key)] = true
	}
	if len(fc.PanicsWhen) > 0 {
		// the callee panics exactly under its declared condition: the caller must be allowed to
		// panic then (and must not have written anything), and continues only otherwise
		var conds []Term
		for _, cl := range fc.PanicsWhen {
			t, err := envPre.evalBool(cl.E)
			if err != nil {
				panic(evalError{fmt.Sprintf("panics_when of %s: %v", shortKey(fc.Key), err)})
			}
			conds = append(conds, t)
		}
		pc := or(conds...)
		top := fr.topFrame()
		saveReach := fr.reach
		fr.reach = and(saveReach, pc)
		if top.fc != nil && len(top.fc.PanicsWhen) > 0 {
			if !fr.ignored("panic.callee") {
				fr.oblige("panic.callee", "", top.panicCond(), ins.Pos(), "callee "+shortKey(fc.Key)+" panics only when the caller may")
				fr.panicNoChange(ins.Pos())
			}
		} else if !(top.recovers || (top.fc != nil && top.fc.Recover)) {
			fr.oblige("safety.panic", "", tFalse, ins.Pos(), "callee "+shortKey(fc.Key)+" does not panic here")
		}
		fr.reach = and(saveReach, not(pc))
	}
	post := pre.clone()
	if !fc.Pure {
		m := fr.preciseModSet(fc, envPre)
		if fr.inLocalOnly() {
			if m.all {
				fr.oblige("loop.local", "", tFalse, ins.Pos(), "call of "+shortKey(fc.Key)+" (modifies everything) inside a `modifies local` loop")
			}
			for _, hn := range m.heapNames() {
				if !strings.HasPrefix(hn, "H_") {
					continue
				}
				if m.heapAll[hn] || len(m.fields[hn]) > 0 || m.elems[hn] {
					fr.oblige("loop.local", "", tFalse, ins.Pos(), "call of "+shortKey(fc.Key)+" writes unlocalised cells inside a `modifies local` loop")
				}
				for _, l := range m.locs[hn] {
					fr.localWriteCheck(l, ins.Pos())
				}
			}
			for _, b := range m.regionBases {
				fr.localWriteCheck(b, ins.Pos())
			}
		}
		m.alloc = true // the callee may allocate: the counter moves up
		c.havocCallee(post, m, "call "+shortKey(ci.key))
	}
	fr.st = post
	res := fr.freshResults(ci.sig.Results(), "r_"+short)
	for _, r := range res {
		c.assumeTypeInv(r, nil, post)
	}
	envPost := fr.calleeEnvDyn(ci, fc, args, argTypes, post, actuals)
	envPost.old = envPre
	rt := ci.sig.Results()
	for i, r := range res {
		envPost.result = append(envPost.result, Binding{r, rt.At(i).Type()})
		if n := rt.At(i).Name(); n != "" && n != "_" {
			if _, clash := envPost.vars[n]; !clash {
				envPost.vars[n] = Binding{r, rt.At(i).Type()}
			}
		}
	}
	for _, g := range fc.GhostAts {
		if d := c.V.CS.Ghosts[g.Var]; d != nil && d.Local {
			continue // the callee's own instance
		}
		if g.When == "return" || g.When == "entry" {
			v := envPost.eval(g.E)
			c.setGhost(fr.st, g.Var, v.T)
			envPost.st = fr.st
		}
	}
	for _, e := range fc.Ensures {
		t, err := envPost.evalBool(e.E)
		if err != nil {
			panic(evalError{fmt.Sprintf("ensures of %s: %v", shortKey(fc.Key), err)})
		}
		c.assume(implies(fr.reach, t))
	}
	return res
}

// preciseModSet evaluates a modifies clause at a call site.
func (fr *Frame) preciseModSet(fc *FuncContract, env *Env) *ModSet {
	c := fr.c
	m := newModSet()
	if fc.ModAll {
		m.all = true
		// `modifies *` covers the heap; the ghosts the callee may change are those its own
		// contract assigns or talks about in a postcondition
		for _, g := range fc.GhostAts {
			m.ghosts[g.Var] = true
		}
		for _, e := range fc.Ensures {
			ghostsIn(e.E, m.ghosts)
		}
		for _, cl := range fc.Modifies {
			if g, ok := cl.E.(EGhost); ok {
				m.ghosts[g.Name] = true
			}
		}
		for g := range m.ghosts {
			if d := c.V.CS.Ghosts[g]; d != nil && d.Local {
				delete(m.ghosts, g)
			}
		}
		return m
	}
	for _, g := range fc.GhostAts {
		if g.When == "return" || g.When == "entry" {
			// handled as explicit assignment
			continue
		}
	}
	addCell := func(p Term, t types.Type) {
		for _, lp := range c.leafPaths(t) {
			srt := c.sortOf(lp.t)
			hn := heapName(srt)
			c.heapSort[hn] = srt
			m.locs[hn] = append(m.locs[hn], lp.ptr(p))
		}
	}
	for _, cl := range fc.Modifies {
		switch x := cl.E.(type) {
		case EGhost:
			m.ghosts[x.Name] = true
		case EIdent:
			if x.Name == "alloc" {
				m.alloc = true
				continue
			}
			evalFail("modifies %s: not a location", x.Name)
		case ESel:
			// T.f / pkg.T.f: field f of every object of struct type T
			if tn := typeNameOf(x.X, env); tn != nil {
				ts, ok := tn.Type().Underlying().(*types.Struct)
				if !ok {
					evalFail("modifies %s: %s is not a struct type", exprString(x), tn.Name())
				}
				p2, ft2 := findField(ts, x.Name)
				if len(p2) != 1 {
					evalFail("modifies %s: no such field", exprString(x))
				}
				for _, lp := range c.leafPaths(ft2) {
					srt := c.sortOf(lp.t)
					hn := heapName(srt)
					c.heapSort[hn] = srt
					if len(lp.steps) == 0 {
						m.addField(hn, c.V.fieldID(tn.Type(), p2[0]))
					} else if fid, isF := lp.lastFieldID(); isF {
						m.addField(hn, fid)
					} else {
						m.elems[hn] = true
					}
				}
				continue
			}
			v := env.eval(x.X)
			pt, ok := v.Ty.Underlying().(*types.Pointer)
			if !ok {
				evalFail("modifies %s: base is not a pointer", exprString(x))
			}
			st := pt.Elem().Underlying().(*types.Struct)
			path, ft := findField(st, x.Name)
			if len(path) != 1 {
				evalFail("modifies %s: field not found", exprString(x))
			}
			addCell(c.fieldPtr(v.T, pt.Elem(), path[0]), ft)
		case EDeref:
			v := env.eval(x.X)
			pt, ok := v.Ty.Underlying().(*types.Pointer)
			if !ok {
				evalFail("modifies *%s: not a pointer", exprString(x.X))
			}
			addCell(v.T, pt.Elem())
		case EIndex:
			v := env.eval(x.X)
			i := env.eval(x.I)
			sl, ok := v.Ty.Underlying().(*types.Slice)
			if !ok {
				evalFail("modifies %s: not a slice element", exprString(x))
			}
			addCell(sliceElemPtr(v.T, i.T), sl.Elem())
		case ECall:
			switch x.Fun {
			case "heap":
				id, ok := x.Args[0].(EIdent)
				if !ok {
					evalFail("modifies heap(T)")
				}
				_, srt := c.resolveType(id.Name, env.pkg)
				hn := heapName(srt)
				c.heapSort[hn] = srt
				m.heapAll[hn] = true
			case "pointee":
				// the cell(s) the pointer held in an interface-typed parameter points to
				v := env.eval(x.Args[0])
				pt := env.dynPointer(x.Args[0])
				addCell(c.unbox(app(SInt, "iref", v.T), SPtr), pt.Elem())
			case "elems":
				// all element cells of a slice (its whole capacity)
				v := env.eval(x.Args[0])
				sl, ok := v.Ty.Underlying().(*types.Slice)
				if !ok {
					evalFail("modifies elems(s): not a slice")
				}
				for _, lp := range c.leafPaths(sl.Elem()) {
					srt := c.sortOf(lp.t)
					hn := heapName(srt)
					c.heapSort[hn] = srt
					cond, root := lp.match("p")
					cond = append(cond, fmt.Sprintf("((_ is pelem) %s)", root), fmt.Sprintf("(= (ebase %s) (sbase %s))", root, v.T.S),
						fmt.Sprintf("(<= (soff %s) (eidx %s))", v.T.S, root), fmt.Sprintf("(< (eidx %s) (+ (soff %s) (scap %s)))", root, v.T.S, v.T.S))
					m.regions[hn] = append(m.regions[hn], "(and "+strings.Join(cond, " ")+")")
				}
				m.regionBases = append(m.regionBases, sliceBase(v.T))
			case "elemrange":
				// element cells lo <= i < hi (relative to the slice start) of a slice's array
				v := env.eval(x.Args[0])
				lo := env.eval(x.Args[1])
				hi := env.eval(x.Args[2])
				sl, ok := v.Ty.Underlying().(*types.Slice)
				if !ok {
					evalFail("modifies elemrange(s, lo, hi): not a slice")
				}
				for _, lp := range c.leafPaths(sl.Elem()) {
					srt := c.sortOf(lp.t)
					hn := heapName(srt)
					c.heapSort[hn] = srt
					cond, root := lp.match("p")
					cond = append(cond, fmt.Sprintf("((_ is pelem) %s)", root), fmt.Sprintf("(= (ebase %s) (sbase %s))", root, v.T.S),
						fmt.Sprintf("(<= (+ (soff %s) %s) (eidx %s))", v.T.S, lo.T.S, root), fmt.Sprintf("(< (eidx %s) (+ (soff %s) %s))", root, v.T.S, hi.T.S))
					m.regions[hn] = append(m.regions[hn], "(and "+strings.Join(cond, " ")+")")
				}
				m.regionBases = append(m.regionBases, sliceBase(v.T))
			case "region":
				// everything inside the object p points into
				v := env.eval(x.Args[0])
				base := v.T
				if v.T.Sort == SSlice {
					base = sliceBase(v.T)
				}
				for _, hn := range sortedKeys(c.heapSort) {
					if strings.HasPrefix(hn, "H_") {
						m.regions[hn] = append(m.regions[hn], fmt.Sprintf("(= (rootid p) (rootid %s))", base.S))
					}
				}
				m.regions["*region"] = append(m.regions["*region"], base.S)
				m.regionBases = append(m.regionBases, base)
			case "mapof":
				v := env.eval(x.Args[0])
				mt, ok := v.Ty.Underlying().(*types.Map)
				if !ok {
					evalFail("modifies mapof(m): not a map")
				}
				dn, df := c.mapDomName(mt)
				vn, vf := c.mapValName(mt)
				c.heapSort[dn] = df
				c.heapSort[vn] = vf
				c.heapSort["ML"] = "(Array Ptr Int)"
				m.locs[dn] = append(m.locs[dn], v.T)
				m.locs[vn] = append(m.locs[vn], v.T)
				m.locs["ML"] = append(m.locs["ML"], v.T)
			default:
				evalFail("modifies %s: unknown location form", exprString(x))
			}
		default:
			evalFail("modifies %s: unknown location form", exprString(cl.E))
		}
	}
	delete(m.regions, "*region")
	return m
}

// inline symbolically executes a callee body at the call site.
func (fr *Frame) inline(ins ssa.CallInstruction, ci *calleeInfo, args []Term) []Term {
	c := fr.c
	sub := &Frame{c: c, fn: ci.fn, fc: ci.fc, parent: fr, top: fr.topFrame(), depth: fr.depth + 1,
		vals: map[ssa.Value]Term{}, tuples: map[ssa.Value][]Term{}, closures: map[ssa.Value]*closureVal{},
		entry: fr.st.clone(), st: fr.st.clone(), reach: fr.reach, params: args, localOnly: fr.inLocalOnly()}
	if ci.closure != nil {
		sub.freeVars = ci.closure.binds
	} else if len(ci.fn.FreeVars) > 0 {
		unsupp("call of closure %s with unknown bindings", ci.fn.Name())
	}
	if len(ci.fn.Params) != len(args) {
		unsupp("inline %s: %d params vs %d args", ci.fn.Name(), len(ci.fn.Params), len(args))
	}
	for i, p := range ci.fn.Params {
		sub.vals[p] = args[i]
	}
	sub.run()
	return fr.mergeReturns(sub, ci.sig.Results())
}

// mergeReturns joins the return points of a finished frame into the caller's state.
func (fr *Frame) mergeReturns(sub *Frame, rt *types.Tuple) []Term {
	c := fr.c
	if len(sub.rets) == 0 {
		// callee never returns normally (always panics): unreachable continuation
		c.assume(not(fr.reach))
		return fr.freshResults(rt, "noret")
	}
	if len(sub.rets) == 1 {
		fr.st = sub.rets[0].st
		// paths of the callee that end in a (declared) panic do not continue here
		fr.reach = sub.rets[0].reach
		return sub.rets[0].vals
	}
	var ins []inEdge
	var rs []Term
	for _, r := range sub.rets {
		ins = append(ins, inEdge{guard: r.reach, st: r.st})
		rs = append(rs, r.reach)
	}
	fr.st = fr.mergeStates(ins, nil)
	fr.reach = or(rs...)
	var res []Term
	for i := 0; i < rt.Len(); i++ {
		same := true
		for _, r := range sub.rets {
			if r.vals[i].S != sub.rets[0].vals[i].S {
				same = false
			}
		}
		if same {
			res = append(res, sub.rets[0].vals[i])
			continue
		}
		v := c.fresh("ret", c.sortOf(rt.At(i).Type()))
		for _, r := range sub.rets {
			c.assume(implies(r.reach, eq(v, r.vals[i])))
		}
		res = append(res, v)
	}
	return res
}

func (fr *Frame) goSpawn(x *ssa.Go) {
	cc := &x.Call
	if _, ok := cc.Value.(*ssa.Builtin); ok {
		return
	}
	ci := fr.resolveCallee(cc)
	var args []Term
	var argTypes []types.Type
	for _, a := range cc.Args {
		args = append(args, fr.val(a))
		argTypes = append(argTypes, a.Type())
	}
	fr.curPos = x.Pos()
	fr.curIns = x
	fr.callSpecAsserts(ci, fr.callOrdinal(ci.key), args, argTypes)
	fr.ghostAtCall(ci, 0, "before", args)
	defer fr.ghostAtCallAfter(ci, 0, args, nil)
	if ci.fc != nil {
		// a new goroutine holds no locks: its precondition is evaluated with an empty lock set
		gst := fr.st.clone()
		gst.ghosts["held"] = Term{"((as const (Array Ptr Bool)) false)", "(Array Ptr Bool)"}
		env := fr.calleeEnv(ci, ci.fc, args, argTypes, gst)
		for _, r := range ci.fc.Requires {
			t, err := env.evalBool(r.E)
			if err != nil {
				panic(err)
			}
			fr.oblige("go.pre."+lastSeg(shortKey(ci.key)), r.Label, t, x.Pos(), "precondition of spawned "+shortKey(ci.key))
		}
	}
}

func (fr *Frame) selectHook(x *ssa.Select, idx Term) {}

// ---- ghost-at anchors and call-site assertions ----------------------------------------------

func (fr *Frame) ghostAtCall(ci *calleeInfo, ord int, when string, args []Term) {
	fr.ghostAtCallT(ci, when, args, nil)
}

func (fr *Frame) ghostAtCallT(ci *calleeInfo, when string, args []Term, argTypes []types.Type) {
	top := fr.topFrame()
	if top.fc == nil {
		return
	}
	for _, g := range top.fc.GhostAts {
		if g.Callee == "" || g.When != when || !calleeMatches(ci, g.Callee) {
			continue
		}
		if g.Ord >= 0 && g.Ord != fr.patternOrdinal(g.Callee, when) {
			continue
		}
		env := fr.anchorEnv()
		for i, a := range args {
			var ty types.Type
			if i < len(argTypes) {
				ty = argTypes[i]
			}
			env.vars[fmt.Sprintf("arg%d", i)] = Binding{a, ty}
		}
		v := env.eval(g.E)
		fr.c.setGhost(fr.st, g.Var, v.T)
		top.callOrd["fired:"+g.Src] = 1
	}
	fr.bumpPattern(ci, when)
}

func (fr *Frame) ghostAtCallAfter(ci *calleeInfo, ord int, args []Term, res []Term) {
	fr.ghostAtCallAfterT(ci, args, res, nil, nil)
}

func (fr *Frame) ghostAtCallAfterT(ci *calleeInfo, args []Term, res []Term, argTypes []types.Type, resTypes *types.Tuple) {
	top := fr.topFrame()
	if top.fc == nil {
		return
	}
	for _, g := range top.fc.GhostAts {
		if g.Callee == "" || g.When != "after" || !calleeMatches(ci, g.Callee) {
			continue
		}
		if g.Ord >= 0 && g.Ord != fr.patternOrdinal(g.Callee, "after") {
			continue
		}
		env := fr.anchorEnv()
		for i, a := range args {
			var ty types.Type
			if i < len(argTypes) {
				ty = argTypes[i]
			}
			env.vars[fmt.Sprintf("arg%d", i)] = Binding{a, ty}
		}
		for i, r := range res {
			var ty types.Type
			if resTypes != nil && i < resTypes.Len() {
				ty = resTypes.At(i).Type()
			}
			env.vars[fmt.Sprintf("res%d", i)] = Binding{r, ty}
		}
		v := env.eval(g.E)
		fr.c.setGhost(fr.st, g.Var, v.T)
		top.callOrd["fired:"+g.Src] = 1
	}
	fr.bumpPattern(ci, "after")
}

func calleeMatches(ci *calleeInfo, pat string) bool {
	for _, k := range ci.keys {
		if strings.HasSuffix(k, pat) || strings.HasSuffix(shortKey(k), pat) {
			return true
		}
	}
	return false
}

// anchorEnv: environment for ghost-at expressions: the top function's parameters and (when the
// anchor is in the top frame) its locals, evaluated in the current state.
func (fr *Frame) anchorEnv() *Env {
	if fr.top == nil {
		return fr.curEnv()
	}
	return fr.top.baseEnv(fr.st)
}

// srcOrdinal: the ordinal of the current call among the call sites of the function under
// verification that match the pattern, in SOURCE order (stable under block reordering). Calls
// inside inlined bodies fall back to execution order (-1 here).
func (fr *Frame) srcOrdinal(pat string) int {
	if fr.top != nil || fr.curIns == nil {
		return -1
	}
	cur := fr.curIns.Pos()
	n := 0
	for _, b := range fr.fn.Blocks {
		for _, ins := range b.Instrs {
			ci, ok := ins.(ssa.CallInstruction)
			if !ok || ins == fr.curIns.(ssa.Instruction) {
				continue
			}
			cc := ci.Common()
			if _, isB := cc.Value.(*ssa.Builtin); isB {
				continue
			}
			if ins.Pos() >= cur {
				continue
			}
			if calleeMatches(fr.resolveCallee(cc), pat) {
				n++
			}
		}
	}
	return n
}

// patternOrdinal counts, per (pattern, phase), how many matching calls were executed so far.
func (fr *Frame) patternOrdinal(pat, when string) int {
	if o := fr.srcOrdinal(pat); o >= 0 {
		return o
	}
	return fr.topFrame().callOrd["pat:"+when+":"+pat]
}

func (fr *Frame) bumpPattern(ci *calleeInfo, when string) {
	top := fr.topFrame()
	if top.fc == nil {
		return
	}
	seen := map[string]bool{}
	for _, g := range top.fc.GhostAts {
		if g.Callee != "" && g.When == when && calleeMatches(ci, g.Callee) && !seen[g.Callee] {
			seen[g.Callee] = true
			top.callOrd["pat:"+when+":"+g.Callee]++
		}
	}
	if when == "before" {
		seen = map[string]bool{}
		for _, cs := range top.fc.CallSpecs {
			if calleeMatches(ci, cs.Callee) && !seen[cs.Callee] {
				seen[cs.Callee] = true
				top.callOrd["spec:"+cs.Callee]++
			}
		}
	}
}

func (fr *Frame) callSpecAsserts(ci *calleeInfo, ord int, args []Term, argTypes []types.Type) {
	top := fr.topFrame()
	if fr.top != nil || top.fc == nil {
		return
	}
	for _, cs := range top.fc.CallSpecs {
		if cs.Kind != "assert" || !calleeMatches(ci, cs.Callee) {
			continue
		}
		specOrd := top.callOrd["spec:"+cs.Callee]
		if o := fr.srcOrdinal(cs.Callee); o >= 0 {
			specOrd = o
		}
		if cs.Ord >= 0 && cs.Ord != specOrd {
			continue
		}
		env := fr.curEnv()
		for i, a := range args {
			var ty types.Type
			if i < len(argTypes) {
				ty = argTypes[i]
			}
			env.vars[fmt.Sprintf("arg%d", i)] = Binding{a, ty}
		}
		t, err := env.evalBool(cs.E)
		if err != nil {
			panic(err)
		}
		fr.oblige("at."+lastSeg(cs.Callee), cs.Label, t, fr.curPos, "call-site assertion: "+cs.Src)
		top.callOrd["fired:"+cs.Src] = 1
	}
}

// ---- environments ----------------------------------------------------------------------------

// baseEnv: parameters (entry values), package scope, given state.
func (fr *Frame) baseEnv(st *State) *Env {
	top := fr
	env := &Env{c: fr.c, vars: map[string]Binding{}, st: st, fr: fr}
	if top.fn.Pkg != nil {
		env.pkg = top.fn.Pkg.Pkg
	} else if top.fn.Parent() != nil {
		for p := top.fn.Parent(); p != nil; p = p.Parent() {
			if p.Pkg != nil {
				env.pkg = p.Pkg.Pkg
				break
			}
		}
	}
	if env.pkg == nil {
		env.pkg = fr.c.V.pkgOfKey(funcKey(originOf(top.fn)))
	}
	oldEnv := &Env{c: fr.c, vars: map[string]Binding{}, st: fr.entry, pkg: env.pkg, fr: fr}
	names := fr.paramNames()
	for i, p := range fr.fn.Params {
		b := Binding{fr.params[i], p.Type()}
		env.vars[names[i]] = b
		oldEnv.vars[names[i]] = b
	}
	for i, fv := range fr.fn.FreeVars {
		// captured variables are cells: name refers to the current content
		pt, ok := fv.Type().Underlying().(*types.Pointer)
		if !ok {
			continue
		}
		env.vars[fv.Name()] = Binding{fr.c.load(st, fr.freeVars[i], pt.Elem()), pt.Elem()}
		oldEnv.vars[fv.Name()] = Binding{fr.c.load(fr.entry, fr.freeVars[i], pt.Elem()), pt.Elem()}
		env.vars["&"+fv.Name()] = Binding{fr.freeVars[i], fv.Type()}
	}
	env.old = oldEnv
	return env
}

func (fr *Frame) paramNames() []string {
	var names []string
	for i, p := range fr.fn.Params {
		n := p.Name()
		if fr.fc != nil && i < len(fr.fc.ParamNames) {
			n = fr.fc.ParamNames[i]
		}
		if n == "" || n == "_" {
			n = fmt.Sprintf("a%d", i)
		}
		names = append(names, n)
	}
	return names
}

func (fr *Frame) entryEnv() *Env {
	env := fr.baseEnv(fr.entry)
	env.old = nil
	return env
}

// curEnv: environment at the current program point (locals resolved in the current block).
func (fr *Frame) curEnv() *Env {
	env := fr.baseEnv(fr.st)
	blk := fr.curBlock
	env.local = func(name string) (Binding, bool) {
		// values visible at the current point: search this block's executed debug refs first
		if blk != nil {
			for i := len(blk.Instrs) - 1; i >= 0; i-- {
				dr, ok := blk.Instrs[i].(*ssa.DebugRef)
				if !ok || debugRefName(dr) != name {
					continue
				}
				if dr.IsAddr {
					pt, ok := dr.X.Type().Underlying().(*types.Pointer)
					if !ok {
						continue
					}
					if t, ok := fr.tryVal(dr.X); ok {
						return Binding{fr.c.load(fr.st, t, pt.Elem()), pt.Elem()}, true
					}
					continue
				}
				if b, ok := fr.cellVarNow(dr, fr.st); ok {
					return b, true
				}
				if t, ok := fr.tryVal(dr.X); ok {
					return Binding{t, dr.X.Type()}, true
				}
			}
			return fr.lookupLocalAt(name, blk, nil, fr.st)
		}
		return Binding{}, false
	}
	if env.old != nil {
		// SSA locals are values: they mean the same inside old(...)
		env.old.local = env.local
	}
	return env
}

// cellVarNow: the debug ref of a variable that lives in a cell (a captured variable, or a local
// captured by a closure) records one particular load of the cell; a source-level name means the
// variable's CURRENT content, so the cell is read again in the given state.
func (fr *Frame) cellVarNow(dr *ssa.DebugRef, st *State) (Binding, bool) {
	if dr.IsAddr {
		return Binding{}, false
	}
	u, ok := dr.X.(*ssa.UnOp)
	if !ok || u.Op != token.MUL {
		return Binding{}, false
	}
	switch cell := u.X.(type) {
	case *ssa.FreeVar:
		for i, fv := range fr.fn.FreeVars {
			if fv == cell {
				return Binding{fr.c.load(st, fr.freeVars[i], u.Type()), u.Type()}, true
			}
		}
	case *ssa.Alloc:
		if cell.Comment == debugRefName(dr) {
			if t, ok := fr.vals[cell]; ok {
				return Binding{fr.c.load(st, t, u.Type()), u.Type()}, true
			}
		}
	}
	return Binding{}, false
}

// typeNameOf resolves T or pkg.T (a struct type name, not a variable) in a modifies clause.
func typeNameOf(e Expr, env *Env) *types.TypeName {
	if env.pkg == nil {
		return nil
	}
	switch x := e.(type) {
	case EIdent:
		if _, bound := env.vars[x.Name]; bound {
			return nil
		}
		tn, _ := env.pkg.Scope().Lookup(x.Name).(*types.TypeName)
		return tn
	case ESel:
		id, ok := x.X.(EIdent)
		if !ok {
			return nil
		}
		if _, bound := env.vars[id.Name]; bound {
			return nil
		}
		for _, imp := range env.pkg.Imports() {
			if imp.Name() == id.Name {
				tn, _ := imp.Scope().Lookup(x.Name).(*types.TypeName)
				return tn
			}
		}
	}
	return nil
}

// onceDo models sync.Once.Do for a closure literal: the closure body is executed (inlined) exactly
// when the ghost flag $onceDone of that Once is still false; afterwards the flag is true.
func (fr *Frame) onceDo(ins ssa.CallInstruction, once Term, cv *closureVal) {
	c := fr.c
	done := sel(c.ghost(fr.st, "onceDone"), once, SBool)
	first := c.fresh("once_first", SBool)
	c.assumeDef(eq(first, not(done)))
	before := fr.st.clone()
	saveReach := fr.reach
	fr.reach = and(saveReach, first)
	fn := cv.mc.Fn.(*ssa.Function)
	ci := &calleeInfo{key: funcKey(fn), keys: []string{funcKey(fn)}, fn: fn, closure: cv, sig: fn.Signature}
	if fc, ok := c.V.CS.Funcs[ci.key]; ok && !fc.Inline {
		ci.fc = fc
		fr.applyContract(ins, ci, nil, nil)
	} else {
		fr.inline(ins, ci, nil)
	}
	after := fr.st
	fr.reach = saveReach
	fr.st = fr.mergeStates([]inEdge{{guard: and(saveReach, first), st: after}, {guard: and(saveReach, not(first)), st: before}}, nil)
	c.setGhost(fr.st, "onceDone", sto(c.ghost(fr.st, "onceDone"), once, tTrue))
	c.assumed["sync.Once.Do runs its argument iff the Once has not fired (ghost $onceDone)"] = true
}

// ghostsIn collects the ghost variables an expression mentions.
func ghostsIn(e Expr, out map[string]bool) {
	switch x := e.(type) {
	case EGhost:
		out[x.Name] = true
	case EUnary:
		ghostsIn(x.X, out)
	case EBinary:
		ghostsIn(x.X, out)
		ghostsIn(x.Y, out)
	case ECall:
		for _, a := range x.Args {
			ghostsIn(a, out)
		}
	case ESel:
		ghostsIn(x.X, out)
	case EIndex:
		ghostsIn(x.X, out)
		ghostsIn(x.I, out)
	case EUpdate:
		ghostsIn(x.X, out)
		ghostsIn(x.I, out)
		ghostsIn(x.V, out)
	case EQuant:
		ghostsIn(x.Body, out)
	case ECond:
		ghostsIn(x.C, out)
		ghostsIn(x.A, out)
		ghostsIn(x.B, out)
	case EOld:
		ghostsIn(x.X, out)
	case EDeref:
		ghostsIn(x.X, out)
	}
}
