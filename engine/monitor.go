package main

import (
	"fmt"
	"go/token"
	"go/types"
	"strings"

	"golang.org/x/tools/go/ssa"
)

// Monitors (design §2.5): Lock() assumes the invariant over havocked protected fields,
// Unlock() asserts it; every access of a protected field needs held(mu).

func (v *Verifier) monitorFor(structT types.Type, fieldName string) *Monitor {
	key := structKey(structT)
	for _, m := range v.CS.Monitors {
		if m.TypeKey == key && m.MuField == fieldName {
			return m
		}
	}
	return nil
}

// monitorsProtecting returns monitors of structT that protect the given field.
func (v *Verifier) monitorProtecting(structT types.Type, fieldName string) *Monitor {
	key := structKey(structT)
	for _, m := range v.CS.Monitors {
		if m.TypeKey != key {
			continue
		}
		for _, p := range m.Protects {
			if p == fieldName {
				return m
			}
		}
	}
	return nil
}

func isMutexMethod(key string) (string, bool) {
	for _, p := range []string{"sync.(*Mutex).", "sync.(*RWMutex)."} {
		if strings.HasPrefix(key, p) {
			return strings.TrimPrefix(key, p), true
		}
	}
	return "", false
}

// muOwner decodes a mutex receiver value &obj.mu into (obj value, struct type, field name).
func muOwner(v ssa.Value) (ssa.Value, types.Type, string, bool) {
	fa, ok := v.(*ssa.FieldAddr)
	if !ok {
		return nil, nil, "", false
	}
	st := fa.X.Type().Underlying().(*types.Pointer).Elem()
	return fa.X, st, st.Underlying().(*types.Struct).Field(fa.Field).Name(), true
}

func (fr *Frame) monitorCall(ins ssa.CallInstruction, cc *ssa.CallCommon, ci *calleeInfo, args []Term) ([]Term, bool) {
	c := fr.c
	meth, ok := isMutexMethod(ci.key)
	if !ok || cc.IsInvoke() || len(cc.Args) == 0 {
		return nil, false
	}
	objV, st, fname, ok := muOwner(cc.Args[0])
	if !ok {
		c.note("mutex operation on a receiver that is not a struct field: treated as no-op")
		return nil, true
	}
	mon := c.V.monitorFor(st, fname)
	if mon == nil {
		c.note("mutex %s.%s has no monitor declaration: Lock/Unlock treated as no-ops", shortType(st), fname)
		return nil, true
	}
	obj := fr.val(objV)
	mu := args[0]
	fr.curIns = ins
	fr.curPos = ins.Pos()
	held := c.ghost(fr.st, "held")
	fr.callSpecAsserts(ci, fr.callOrdinal(ci.key), args, nil)
	fr.ghostAtCall(ci, 0, "before", args)
	defer fr.ghostAtCallAfter(ci, 0, args, nil)
	defer fr.callSpecAssumes(ci)
	switch meth {
	case "Lock", "RLock":
		fr.oblige("monitor.nolock", "", not(sel(held, mu, SBool)), ins.Pos(), "mutex not already held (self-deadlock)")
		fr.acquire(mon, obj, objV.Type(), mu)
	case "Unlock", "RUnlock":
		fr.oblige("monitor.held", "", sel(held, mu, SBool), ins.Pos(), "unlock of a mutex that is held")
		fr.release(mon, obj, objV.Type(), mu, ins.Pos(), "unlock")
	case "TryLock":
		unsupp("TryLock")
	default:
		return nil, false
	}
	return nil, true
}

func (fr *Frame) monitorEnv(mon *Monitor, obj Term, objT types.Type, st *State) *Env {
	env := &Env{c: fr.c, vars: map[string]Binding{}, st: st}
	env.pkg = fr.c.V.pkgOfKey(mon.TypeKey + ".x")
	if p := fr.c.V.P.ByPath[mon.Pkg]; p != nil {
		env.pkg = p.Types
	}
	env.vars["self"] = Binding{obj, objT}
	return env
}

// acquire: protected state may have been changed by other threads; the invariant holds.
// Protects entries: `f` (field of the object), `f.g` (field g of the object f points to),
// `T.f` (field f of every object of struct type T in the package), `$ghost`.
func (fr *Frame) acquire(mon *Monitor, obj Term, objT types.Type, mu Term) {
	c := fr.c
	m := newModSet()
	st := objT.Underlying().(*types.Pointer).Elem()
	su := st.Underlying().(*types.Struct)
	var reload []func()
	addCells := func(cell Term, ft types.Type) {
		for _, lp := range c.leafPaths(ft) {
			srt := c.sortOf(lp.t)
			hn := heapName(srt)
			c.heapSort[hn] = srt
			m.locs[hn] = append(m.locs[hn], lp.ptr(cell))
		}
		reload = append(reload, func() {
			v := c.load(fr.st, cell, ft)
			if v.Sort == SInt || v.Sort == SSlice || v.Sort == SPtr || v.Sort == SIface {
				c.assumeTypeInv(v, ft, fr.st)
			}
		})
	}
	for _, pf := range mon.Protects {
		if strings.HasPrefix(pf, "$") {
			m.ghosts[pf[1:]] = true
			continue
		}
		parts := strings.Split(pf, ".")
		if path, ft := findField(su, parts[0]); len(path) == 1 {
			cell := c.fieldPtr(obj, st, path[0])
			if len(parts) == 1 {
				addCells(cell, ft)
				continue
			}
			// f.g: field g of the object f points to (f itself is not protected by this entry)
			pt, ok := ft.Underlying().(*types.Pointer)
			if !ok {
				evalFail("monitor %s: %s is not a pointer field", mon.TypeKey, parts[0])
			}
			inner, ok := pt.Elem().Underlying().(*types.Struct)
			if !ok {
				evalFail("monitor %s: %s does not point to a struct", mon.TypeKey, parts[0])
			}
			p2, ft2 := findField(inner, parts[1])
			if len(p2) != 1 {
				evalFail("monitor %s: no field %s", mon.TypeKey, pf)
			}
			base := c.load(fr.st, cell, ft)
			addCells(c.fieldPtr(base, pt.Elem(), p2[0]), ft2)
			continue
		}
		if len(parts) == 2 {
			// T.f: a field of every object of a struct type of the monitor's package
			if p := c.V.P.ByPath[mon.Pkg]; p != nil {
				if tn, ok := p.Types.Scope().Lookup(parts[0]).(*types.TypeName); ok {
					if ts, ok := tn.Type().Underlying().(*types.Struct); ok {
						if p2, ft2 := findField(ts, parts[1]); len(p2) == 1 {
							for _, lp := range c.leafPaths(ft2) {
								srt := c.sortOf(lp.t)
								hn := heapName(srt)
								c.heapSort[hn] = srt
								if len(lp.steps) == 0 {
									m.addField(hn, c.V.fieldID(tn.Type(), p2[0]))
								} else if fid, isF := lp.lastFieldID(); isF {
									m.addField(hn, fid)
								} else {
									m.elems[hn] = true
								}
							}
							continue
						}
					}
				}
			}
		}
		evalFail("monitor %s: cannot resolve protected entry %s", mon.TypeKey, pf)
	}
	c.havoc(fr.st, m, "lock "+mon.TypeKey)
	c.setGhost(fr.st, "held", sto(c.ghost(fr.st, "held"), mu, tTrue))
	env := fr.monitorEnv(mon, obj, objT, fr.st)
	for _, inv := range mon.Inv {
		c.assume(implies(fr.reach, env.mustBool(inv.E)))
	}
	for _, f := range reload {
		f()
	}
}

func (fr *Frame) release(mon *Monitor, obj Term, objT types.Type, mu Term, pos token.Pos, what string) {
	c := fr.c
	env := fr.monitorEnv(mon, obj, objT, fr.st)
	for _, inv := range mon.Inv {
		t, err := env.evalBool(inv.E)
		if err != nil {
			panic(err)
		}
		fr.oblige("monitor.inv", inv.Label, t, pos, fmt.Sprintf("monitor invariant of %s re-established at %s: %s", lastSeg(mon.TypeKey), what, inv.Src))
	}
	c.setGhost(fr.st, "held", sto(c.ghost(fr.st, "held"), mu, tFalse))
}

// lockDiscipline: an access of a protected field needs the monitor's mutex.
func (fr *Frame) lockDiscipline(addr ssa.Value, p Term, pos token.Pos) {
	fa, ok := addr.(*ssa.FieldAddr)
	if !ok {
		return
	}
	c := fr.c
	if len(c.V.CS.Monitors) == 0 {
		return
	}
	st := fa.X.Type().Underlying().(*types.Pointer).Elem()
	su, ok := st.Underlying().(*types.Struct)
	if !ok {
		return
	}
	fname := su.Field(fa.Field).Name()
	mon := c.V.monitorProtecting(st, fname)
	if mon == nil {
		return
	}
	path, _ := findField(su, mon.MuField)
	if len(path) != 1 {
		return
	}
	mu := c.fieldPtr(fr.val(fa.X), st, path[0])
	fr.oblige("monitor.discipline", "", sel(c.ghost(fr.st, "held"), mu, SBool), pos, fmt.Sprintf("access of %s.%s only with %s held", shortType(st), fname, mon.MuField))
}

func (fr *Frame) lockDisciplineMap(m ssa.Value, pos token.Pos) {
	// map contents are reached through a protected field load, which is already checked
}
