package main

import (
	"fmt"
	"go/token"
	"go/types"
	"sort"
	"strings"

	"golang.org/x/tools/go/ssa"
)

type unsupported struct{ msg string }

func (u unsupported) Error() string { return "unsupported: " + u.msg }

func unsupp(format string, a ...any) { panic(unsupported{fmt.Sprintf(format, a...)}) }

type retPoint struct {
	reach Term
	st    *State
	vals  []Term
}

type closureVal struct {
	mc    *ssa.MakeClosure
	binds []Term
}

type deferred struct {
	d     *ssa.Defer
	block *ssa.BasicBlock
}

type loopInfo struct {
	header   *ssa.BasicBlock
	ordinal  int
	body     map[int]bool // block indices in the natural loop
	backs    []*ssa.BasicBlock
	lc       *LoopContract
	phiFresh map[*ssa.Phi]Term
	decEntry []Term
	autoInv  []func(get func(*ssa.Phi) Term) (Term, string)
	stHeader *State
}

// Frame is one activation (top-level function under contract, or an inlined callee).
type Frame struct {
	c        *Ctx
	fn       *ssa.Function
	fc       *FuncContract
	parent   *Frame
	depth    int
	vals     map[ssa.Value]Term
	tuples   map[ssa.Value][]Term
	closures map[ssa.Value]*closureVal
	freeVars []Term
	entry    *State
	st       *State
	reach    Term
	curBlock *ssa.BasicBlock

	blockReach map[int]Term
	blockExit  map[int]Term
	blockOut   map[int]*State
	edgeCond   map[[2]int]Term
	loops      map[int]*loopInfo
	rets       []retPoint
	defers     []deferred
	top        *Frame
	prefix     string
	counters   map[string]int
	params     []Term
	callOrd    map[string]int
	inlineOf   ssa.CallInstruction
	// ranges: iterator bookkeeping for map range
	iters map[ssa.Value]*mapIter
	// recovered: frame has deferred recover
	recovers bool
	isInit   bool
	// localOnly > 0: executing inside a loop declared `modifies local`
	localOnly   bool
	curPos      token.Pos
	curIns      ssa.CallInstruction
	pendingRes  []Term
	pendingResT *types.Tuple
}

func (fr *Frame) topFrame() *Frame {
	if fr.top != nil {
		return fr.top
	}
	return fr
}

func (fr *Frame) ord(kind string) int {
	t := fr.topFrame()
	n := t.counters[kind]
	t.counters[kind] = n + 1
	return n
}

func (fr *Frame) oblName(kind string, label string) string {
	k := kind
	if fr.top != nil {
		k = "inl." + lastSeg(shortKey(funcKey(fr.fn))) + "." + kind
	}
	n := fr.ord(k)
	name := fmt.Sprintf("%s/%s#%d", shortKey(funcKey(fr.topFrame().fn)), k, n)
	if label != "" {
		name += ":" + label
	}
	return name
}

func (fr *Frame) oblige(kind, label string, cond Term, pos token.Pos, desc string) {
	name := fr.oblName(kind, label)
	if fr.ignored(kind) {
		return
	}
	// a top-level conjunction is split into one obligation per conjunct: smaller queries, and
	// a failure names the conjunct
	parts := splitTopAnd(cond)
	if len(parts) > 1 && len(parts) <= 40 {
		for i, p := range parts {
			o := fr.c.oblige(fmt.Sprintf("%s.%d", name, i), kind, label, fr.reach, p, pos, fmt.Sprintf("%s [conjunct %d of %d]", desc, i+1, len(parts)))
			if o != nil {
				o.Func = funcKey(fr.topFrame().fn)
			}
		}
		return
	}
	o := fr.c.oblige(name, kind, label, fr.reach, cond, pos, desc)
	if o != nil {
		o.Func = funcKey(fr.topFrame().fn)
	}
}

// splitTopAnd splits an SMT term "(and a b ...)" into its top-level conjuncts (recursively).
func splitTopAnd(t Term) []Term {
	s := t.S
	if !strings.HasPrefix(s, "(and ") || !strings.HasSuffix(s, ")") {
		return []Term{t}
	}
	inner := s[5 : len(s)-1]
	var out []Term
	depth := 0
	start := 0
	flush := func(end int) {
		part := strings.TrimSpace(inner[start:end])
		if part != "" {
			out = append(out, splitTopAnd(Term{part, SBool})...)
		}
	}
	for i := 0; i < len(inner); i++ {
		switch inner[i] {
		case '(':
			depth++
		case ')':
			depth--
		case ' ':
			if depth == 0 {
				flush(i)
				start = i + 1
			}
		case '|':
			// quoted symbol: skip to closing bar
			j := strings.IndexByte(inner[i+1:], '|')
			if j >= 0 {
				i += j + 1
			}
		}
	}
	flush(len(inner))
	if depth != 0 {
		return []Term{t}
	}
	return out
}

func (fr *Frame) ignored(kind string) bool {
	fc := fr.topFrame().fc
	if fc == nil {
		return false
	}
	for _, ig := range fc.Ignore {
		f := strings.Fields(ig)
		if len(f) > 0 && strings.HasPrefix(kind, f[0]) {
			return true
		}
	}
	return false
}

// val returns the term of an SSA value.
func (fr *Frame) val(v ssa.Value) Term {
	switch x := v.(type) {
	case *ssa.Const:
		return fr.constVal(x)
	case *ssa.Global:
		return app(SPtr, "pobj", tInt(int64(fr.c.V.globalID(globalKey(x)))))
	case *ssa.Function:
		return fr.c.fnConst(x)
	case *ssa.Builtin:
		unsupp("builtin %s used as value", x.Name())
	case *ssa.FreeVar:
		for i, fv := range fr.fn.FreeVars {
			if fv == x {
				return fr.freeVars[i]
			}
		}
		unsupp("free variable %s unbound", x.Name())
	}
	if t, ok := fr.vals[v]; ok {
		return t
	}
	if _, ok := fr.tuples[v]; ok {
		unsupp("tuple value %s used as scalar", v.Name())
	}
	unsupp("value %s (%T) of %s not yet defined", v.Name(), v, fr.fn.Name())
	return Term{}
}

func globalKey(g *ssa.Global) string {
	if g.Pkg != nil {
		return g.Pkg.Pkg.Path() + "." + g.Name()
	}
	return g.Name()
}

func (c *Ctx) fnConst(f *ssa.Function) Term {
	name := "fn_" + sanitizeIdent(shortKey(funcKey(f)))
	if !c.declared[name] {
		c.declare(name, SFn)
		c.assumeAlways(not(eq(Term{name, SFn}, Term{"fn_nil", SFn})))
	}
	return Term{name, SFn}
}

func (fr *Frame) constVal(x *ssa.Const) Term {
	t := x.Type()
	if x.Value == nil {
		return fr.c.zero(t)
	}
	return fr.c.constTerm(x.Value, t)
}

func isNilConst(v ssa.Value) bool {
	c, ok := v.(*ssa.Const)
	return ok && c.Value == nil
}

// ---- CFG analysis ------------------------------------------------------------------

func rpo(fn *ssa.Function, isBack func(from, to *ssa.BasicBlock) bool) []*ssa.BasicBlock {
	seen := map[int]bool{}
	var post []*ssa.BasicBlock
	var dfs func(b *ssa.BasicBlock)
	dfs = func(b *ssa.BasicBlock) {
		seen[b.Index] = true
		for _, s := range b.Succs {
			if isBack(b, s) || seen[s.Index] {
				continue
			}
			dfs(s)
		}
		post = append(post, b)
	}
	dfs(fn.Blocks[0])
	if fn.Recover != nil && !seen[fn.Recover.Index] {
		// recover block is only reachable via panics; not executed
	}
	for i, j := 0, len(post)-1; i < j; i, j = i+1, j-1 {
		post[i], post[j] = post[j], post[i]
	}
	return post
}

func (fr *Frame) analyzeLoops() {
	fn := fr.fn
	fr.loops = map[int]*loopInfo{}
	for _, b := range fn.Blocks {
		for _, s := range b.Succs {
			if s.Dominates(b) {
				li := fr.loops[s.Index]
				if li == nil {
					li = &loopInfo{header: s, body: map[int]bool{s.Index: true}}
					fr.loops[s.Index] = li
				}
				li.backs = append(li.backs, b)
				// natural loop: all blocks reaching b without passing header
				var stack []*ssa.BasicBlock
				if !li.body[b.Index] {
					li.body[b.Index] = true
					stack = append(stack, b)
				}
				for len(stack) > 0 {
					x := stack[len(stack)-1]
					stack = stack[:len(stack)-1]
					for _, p := range x.Preds {
						if !li.body[p.Index] {
							li.body[p.Index] = true
							stack = append(stack, p)
						}
					}
				}
			}
		}
	}
	// ordinals: headers in block order <-> for/range statements in source order
	var hdrs []int
	for idx := range fr.loops {
		hdrs = append(hdrs, idx)
	}
	sort.Ints(hdrs)
	var stmts int
	if fn.Syntax() != nil {
		stmts = len(loopStmts(fn.Syntax()))
	}
	if fr.fc != nil && len(fr.fc.Loops) > 0 && stmts != len(hdrs) {
		unsupp("loop ordinal mapping: %d SSA loops vs %d for/range statements in %s", len(hdrs), stmts, fn.Name())
	}
	for i, idx := range hdrs {
		fr.loops[idx].ordinal = i
		if fr.fc != nil {
			fr.loops[idx].lc = fr.fc.Loops[i]
		}
	}
	if fr.fc != nil {
		for k := range fr.fc.Loops {
			if k >= len(hdrs) {
				unsupp("contract names loop[%d] but %s has %d loops", k, fn.Name(), len(hdrs))
			}
		}
	}
}

func (fr *Frame) isBackEdge(from, to *ssa.BasicBlock) bool {
	return to.Dominates(from)
}

// ---- running a frame -------------------------------------------------------------------

func (fr *Frame) run() {
	fn := fr.fn
	fr.analyzeLoops()
	fr.blockReach = map[int]Term{}
	fr.blockOut = map[int]*State{}
	fr.edgeCond = map[[2]int]Term{}
	order := rpo(fn, fr.isBackEdge)
	for _, b := range order {
		fr.enterBlock(b)
		fr.curBlock = b
		for _, ins := range b.Instrs {
			if _, ok := ins.(*ssa.Phi); ok {
				continue
			}
			fr.exec(ins)
		}
		fr.blockOut[b.Index] = fr.st
		// the reach at the END of the block (narrowed by calls that may panic) guards its edges;
		// blockReach keeps the entry condition for conditional defers
		if fr.blockExit == nil {
			fr.blockExit = map[int]Term{}
		}
		fr.blockExit[b.Index] = fr.reach
		// back edges out of this block: re-establish invariants
		for _, s := range b.Succs {
			if fr.isBackEdge(b, s) {
				fr.checkBackEdge(b, s)
			}
		}
	}
}

type inEdge struct {
	from  *ssa.BasicBlock
	idx   int // index in Preds
	guard Term
	st    *State
}

func (fr *Frame) exitReach(b *ssa.BasicBlock) Term {
	if r, ok := fr.blockExit[b.Index]; ok {
		return r
	}
	return fr.blockReach[b.Index]
}

func (fr *Frame) edgeGuard(from, to *ssa.BasicBlock) Term {
	r := fr.exitReach(from)
	if c, ok := fr.edgeCond[[2]int{from.Index, to.Index}]; ok {
		// both successors may be the same block
		if len(from.Succs) == 2 && from.Succs[0] == from.Succs[1] {
			return r
		}
		return and(r, c)
	}
	return r
}

func (fr *Frame) enterBlock(b *ssa.BasicBlock) {
	c := fr.c
	if b.Index == 0 {
		fr.blockReach[0] = fr.reach
		return
	}
	var ins []inEdge
	for i, p := range b.Preds {
		if fr.isBackEdge(p, b) {
			continue
		}
		if _, done := fr.blockOut[p.Index]; !done {
			continue // unreachable predecessor (e.g. recover block)
		}
		ins = append(ins, inEdge{p, i, fr.edgeGuardSucc(p, b, i), fr.blockOut[p.Index]})
	}
	if len(ins) == 0 {
		fr.reach = tFalse
		fr.blockReach[b.Index] = tFalse
		fr.st = fr.entry.clone()
		for _, instr := range b.Instrs {
			if phi, ok := instr.(*ssa.Phi); ok {
				fr.vals[phi] = c.zero(phi.Type())
			}
		}
		return
	}
	// reach
	var guards []Term
	for _, e := range ins {
		guards = append(guards, e.guard)
	}
	reach := or(guards...)
	if len(ins) > 1 && len(reach.S) > 60 {
		r := c.fresh(fmt.Sprintf("reach_b%d", b.Index), SBool)
		c.assumeDef(eq(r, reach))
		reach = r
	}
	// state merge
	st := fr.mergeStates(ins, b)
	// phis
	phiVals := map[*ssa.Phi]Term{}
	for _, instr := range b.Instrs {
		phi, ok := instr.(*ssa.Phi)
		if !ok {
			break
		}
		if _, isTuple := phi.Type().(*types.Tuple); isTuple {
			unsupp("tuple phi")
		}
		var vs []Term
		same := true
		for _, e := range ins {
			v := fr.val(phi.Edges[e.idx])
			vs = append(vs, v)
			if v.S != vs[0].S {
				same = false
			}
		}
		if same {
			phiVals[phi] = vs[0]
			continue
		}
		pv := c.fresh("phi_"+phi.Name(), c.sortOf(phi.Type()))
		for i, e := range ins {
			c.assume(implies(e.guard, eq(pv, vs[i])))
		}
		phiVals[phi] = pv
	}
	fr.reach = reach
	fr.blockReach[b.Index] = reach
	fr.st = st
	if li := fr.loops[b.Index]; li != nil {
		fr.enterLoop(li, phiVals)
		return
	}
	for phi, v := range phiVals {
		fr.vals[phi] = v
	}
}

// edgeGuardSucc computes the guard for the pred->b edge, distinguishing If branches by
// successor position (an If may have both successors equal).
func (fr *Frame) edgeGuardSucc(p, b *ssa.BasicBlock, predIdx int) Term {
	r := fr.exitReach(p)
	if len(p.Succs) == 2 {
		if p.Succs[0] == b && p.Succs[1] == b {
			return r
		}
		c, ok := fr.edgeCond[[2]int{p.Index, b.Index}]
		if ok {
			return and(r, c)
		}
	}
	return r
}

func (fr *Frame) mergeStates(ins []inEdge, b *ssa.BasicBlock) *State {
	c := fr.c
	if len(ins) == 1 {
		return ins[0].st.clone()
	}
	out := &State{heaps: map[string]Term{}, ghosts: map[string]Term{}}
	keys := map[string]bool{}
	for _, e := range ins {
		for k := range e.st.heaps {
			keys[k] = true
		}
	}
	for _, k := range sortedKeys(keys) {
		var vs []Term
		same := true
		for _, e := range ins {
			h, ok := e.st.heaps[k]
			if !ok {
				h = c.entryHeapByName(k)
			}
			vs = append(vs, h)
			if h.S != vs[0].S {
				same = false
			}
		}
		if same {
			out.heaps[k] = vs[0]
			continue
		}
		n := c.fresh(k, vs[0].Sort)
		for i, e := range ins {
			c.assume(implies(e.guard, eq(n, vs[i])))
		}
		out.heaps[k] = n
	}
	gkeys := map[string]bool{}
	for _, e := range ins {
		for k := range e.st.ghosts {
			gkeys[k] = true
		}
	}
	for _, k := range sortedKeys(gkeys) {
		var vs []Term
		same := true
		for _, e := range ins {
			g, ok := e.st.ghosts[k]
			if !ok {
				g = c.ghostEntry(k)
			}
			vs = append(vs, g)
			if g.S != vs[0].S {
				same = false
			}
		}
		if same {
			out.ghosts[k] = vs[0]
			continue
		}
		n := c.fresh("g_"+k, vs[0].Sort)
		for i, e := range ins {
			c.assume(implies(e.guard, eq(n, vs[i])))
		}
		out.ghosts[k] = n
	}
	// alloc counter
	same := true
	for _, e := range ins {
		if e.st.alloc.S != ins[0].st.alloc.S {
			same = false
		}
	}
	if same {
		out.alloc = ins[0].st.alloc
	} else {
		n := c.fresh("alloc", SInt)
		for _, e := range ins {
			c.assume(implies(e.guard, eq(n, e.st.alloc)))
		}
		out.alloc = n
	}
	return out
}

func (c *Ctx) entryHeapByName(hn string) Term {
	srt := c.heapSort[hn]
	name := hn + "@0"
	var hs string
	if strings.HasPrefix(hn, "H_") {
		hs = fmt.Sprintf("(Array Ptr %s)", srt)
	} else {
		hs = srt // map heaps record their full sort
	}
	if !c.declared[name] {
		c.declare(name, hs)
		if strings.HasPrefix(hn, "H_") {
			c.wfHeap(Term{name, hs}, srt, Term{"alloc@0", SInt})
		}
	}
	return Term{name, hs}
}

// ---- instructions --------------------------------------------------------------------

func (fr *Frame) exec(ins ssa.Instruction) {
	c := fr.c
	switch x := ins.(type) {
	case *ssa.DebugRef:
		return
	case *ssa.Alloc:
		p := c.allocObj(fr.st)
		et := x.Type().Underlying().(*types.Pointer).Elem()
		if leafCount(et) <= 64 {
			c.store(fr.st, p, et, c.zero(et))
		} else {
			c.note("allocation of %s: %d leaf cells left unconstrained (sound over-approximation of zero memory)", shortType(et), leafCount(et))
		}
		fr.vals[x] = p
		if x.Heap && x.Comment != "" && x.Comment != "complit" && x.Comment != "new" {
			fr.registerImmCell(x, p)
		}
	case *ssa.FieldAddr:
		p := fr.val(x.X)
		fr.nilCheck(p, x.Pos(), "field address of nil pointer")
		st := x.X.Type().Underlying().(*types.Pointer).Elem()
		fr.vals[x] = c.fieldPtr(p, st, x.Field)
	case *ssa.Field:
		v := fr.val(x.X)
		fr.vals[x] = c.structField(v, x.X.Type(), x.Field)
	case *ssa.IndexAddr:
		fr.execIndexAddr(x)
	case *ssa.Index:
		fr.execIndex(x)
	case *ssa.UnOp:
		fr.execUnOp(x)
	case *ssa.BinOp:
		fr.vals[x] = fr.binop(x.Op, fr.val(x.X), fr.val(x.Y), x.X.Type(), x.Y.Type(), x.Type(), x.X, x.Y, x.Pos())
	case *ssa.Store:
		p := fr.val(x.Addr)
		fr.nilCheck(p, x.Pos(), "store through nil pointer")
		fr.localWriteCheck(p, x.Pos())
		fr.lockDiscipline(x.Addr, p, x.Pos())
		c.store(fr.st, p, x.Val.Type(), fr.val(x.Val))
	case *ssa.Convert:
		fr.execConvert(x)
	case *ssa.ChangeType:
		fr.execChangeType(x)
	case *ssa.ChangeInterface:
		fr.vals[x] = fr.val(x.X)
	case *ssa.MakeInterface:
		v := fr.val(x.X)
		if _, isTP := types.Unalias(x.X.Type()).(*types.TypeParam); isTP && v.Sort == SIface {
			fr.vals[x] = v // already an opaque boxed value
			return
		}
		tag := c.V.typeTag(x.X.Type())
		fr.vals[x] = app(SIface, "mkiface", tInt(int64(tag)), c.box(v))
	case *ssa.TypeAssert:
		fr.execTypeAssert(x)
	case *ssa.Extract:
		tv, ok := fr.tuples[x.Tuple]
		if !ok {
			unsupp("extract from unknown tuple %s", x.Tuple.Name())
		}
		fr.vals[x] = tv[x.Index]
	case *ssa.Call:
		res := fr.execCall(x, &x.Call)
		fr.bindResults(x, res)
	case *ssa.Slice:
		fr.execSlice(x)
	case *ssa.MakeSlice:
		fr.execMakeSlice(x)
	case *ssa.MakeMap:
		fr.execMakeMap(x)
	case *ssa.MapUpdate:
		fr.execMapUpdate(x)
	case *ssa.Lookup:
		fr.execLookup(x)
	case *ssa.Range:
		fr.execRange(x)
	case *ssa.Next:
		fr.execNext(x)
	case *ssa.MakeChan:
		fr.vals[x] = c.allocObj(fr.st)
	case *ssa.MakeClosure:
		f := c.fresh("closure", SFn)
		c.assume(not(eq(f, Term{"fn_nil", SFn})))
		cv := &closureVal{mc: x}
		for _, b := range x.Bindings {
			cv.binds = append(cv.binds, fr.val(b))
		}
		fr.closures[x] = cv
		fr.vals[x] = f
	case *ssa.Send:
		fr.nilCheckSoft(fr.val(x.Chan))
		fr.ghostEvent("send", x)
	case *ssa.Select:
		fr.execSelect(x)
	case *ssa.Go:
		fr.execGo(x)
	case *ssa.Defer:
		for _, li := range fr.loops {
			if li.body[fr.curBlock.Index] {
				unsupp("defer inside a loop")
			}
		}
		fr.defers = append(fr.defers, deferred{x, fr.curBlock})
	case *ssa.RunDefers:
		fr.runDefers()
	case *ssa.Return:
		if fr.top == nil && fr.fc != nil && len(fr.fc.PanicsWhen) > 0 {
			fr.oblige("panic.must", "", not(fr.panicCond()), x.Pos(), "returns normally only when the panics_when condition is false")
		}
		fr.returnAsserts(x)
		var vs []Term
		for _, r := range x.Results {
			vs = append(vs, fr.val(r))
		}
		fr.rets = append(fr.rets, retPoint{fr.reach, fr.st.clone(), vs})
	case *ssa.Panic:
		fr.execPanic(x)
	case *ssa.If:
		cond := fr.val(x.Cond)
		b := fr.curBlock
		fr.edgeCond[[2]int{b.Index, b.Succs[0].Index}] = cond
		if b.Succs[1] != b.Succs[0] {
			fr.edgeCond[[2]int{b.Index, b.Succs[1].Index}] = not(cond)
		}
	case *ssa.Jump:
	default:
		unsupp("instruction %T (%s)", ins, ins)
	}
}

func (fr *Frame) bindResults(v ssa.Value, res []Term) {
	if tup, ok := v.Type().(*types.Tuple); ok {
		if tup.Len() != len(res) {
			unsupp("result arity mismatch for %s", v.Name())
		}
		fr.tuples[v] = res
		return
	}
	if len(res) == 1 {
		fr.vals[v] = res[0]
	} else if len(res) == 0 {
		// no value
	} else {
		unsupp("result arity mismatch")
	}
}

func definitelyNonNil(p Term) bool {
	return strings.HasPrefix(p.S, "(pfld ") || strings.HasPrefix(p.S, "(pelem ") || strings.HasPrefix(p.S, "(pobj ")
}

func (fr *Frame) nilCheck(p Term, pos token.Pos, desc string) {
	if definitelyNonNil(p) {
		return
	}
	fr.oblige("safety.nil", "", not(eq(p, tNilPtr)), pos, desc)
}

func (fr *Frame) nilCheckSoft(p Term) {}

func (fr *Frame) execIndexAddr(x *ssa.IndexAddr) {
	c := fr.c
	base := fr.val(x.X)
	idx := fr.val(x.Index)
	switch t := x.X.Type().Underlying().(type) {
	case *types.Slice:
		fr.oblige("safety.index", "", Term{fmt.Sprintf("(and (<= 0 %s) (< %s (slen %s)))", idx.S, idx.S, base.S), SBool}, x.Pos(), "slice index in range")
		fr.vals[x] = sliceElemPtr(base, idx)
	case *types.Pointer:
		arr := t.Elem().Underlying().(*types.Array)
		fr.nilCheck(base, x.Pos(), "index of nil array pointer")
		fr.oblige("safety.index", "", Term{fmt.Sprintf("(and (<= 0 %s) (< %s %d))", idx.S, idx.S, arr.Len()), SBool}, x.Pos(), "array index in range")
		fr.vals[x] = elemPtr(base, idx)
	default:
		unsupp("IndexAddr on %s", x.X.Type())
	}
	_ = c
}

func (fr *Frame) execIndex(x *ssa.Index) {
	c := fr.c
	base := fr.val(x.X)
	idx := fr.val(x.Index)
	switch t := x.X.Type().Underlying().(type) {
	case *types.Array:
		fr.oblige("safety.index", "", Term{fmt.Sprintf("(and (<= 0 %s) (< %s %d))", idx.S, idx.S, t.Len()), SBool}, x.Pos(), "array index in range")
		fr.vals[x] = sel(base, idx, c.sortOf(t.Elem()))
	case *types.Basic: // string
		fr.oblige("safety.index", "", Term{fmt.Sprintf("(and (<= 0 %s) (< %s (str_len %s)))", idx.S, idx.S, base.S), SBool}, x.Pos(), "string index in range")
		v := app(SInt, "str_at", base, idx)
		c.assume(Term{fmt.Sprintf("(and (<= 0 %s) (<= %s 255))", v.S, v.S), SBool})
		fr.vals[x] = v
	default:
		unsupp("Index on %s", x.X.Type())
	}
}

func (fr *Frame) execUnOp(x *ssa.UnOp) {
	c := fr.c
	v := fr.val(x.X)
	switch x.Op {
	case token.MUL:
		fr.nilCheck(v, x.Pos(), "load through nil pointer")
		fr.lockDiscipline(x.X, v, x.Pos())
		et := x.X.Type().Underlying().(*types.Pointer).Elem()
		r := c.load(fr.st, v, et)
		// name and constrain scalars
		if r.Sort == SInt || r.Sort == SSlice || r.Sort == SPtr || r.Sort == SIface {
			n := c.fresh("ld_"+x.Name(), r.Sort)
			c.assumeDef(eq(n, r))
			c.assumeTypeInv(n, et, fr.st)
			r = n
		}
		fr.vals[x] = r
	case token.NOT:
		fr.vals[x] = not(v)
	case token.SUB:
		if v.Sort == SF64 {
			c.declareFun("f64_neg", []string{SF64}, SF64)
			fr.vals[x] = app(SF64, "f64_neg", v)
			return
		}
		ii, _ := intInfoOf(x.Type())
		fr.vals[x] = app(SInt, ii.wrapFn(), app(SInt, "-", v))
	case token.XOR:
		ii, _ := intInfoOf(x.Type())
		if ii.signed {
			fr.vals[x] = app(SInt, "-", app(SInt, "-", v), tInt(1))
		} else {
			fr.vals[x] = app(SInt, "-", Term{"(- " + pow2(ii.bits) + " 1)", SInt}, v)
		}
	case token.ARROW:
		// channel receive: value unconstrained (§2.9)
		fr.ghostEvent("recv", x)
		if x.CommaOk {
			tup := x.Type().(*types.Tuple)
			r := c.fresh("recv", c.sortOf(tup.At(0).Type()))
			c.assumeTypeInv(r, tup.At(0).Type(), fr.st)
			ok := c.fresh("recvok", SBool)
			fr.tuples[x] = []Term{r, ok}
		} else {
			r := c.fresh("recv", c.sortOf(x.Type()))
			c.assumeTypeInv(r, x.Type(), fr.st)
			fr.vals[x] = r
		}
	default:
		unsupp("unop %s", x.Op)
	}
}

// ghostEvent: channel sends are counted in the builtin ghost $sends (the value sent and the
// channel are not modelled).
func (fr *Frame) ghostEvent(kind string, ins ssa.Instruction) {
	if kind == "send" {
		cur := fr.c.ghost(fr.st, "sends")
		fr.c.setGhost(fr.st, "sends", app(SInt, "+", cur, tInt(1)))
	}
}

// inLocalOnly reports whether the current point lies in a loop declared `modifies local`.
func (fr *Frame) inLocalOnly() bool {
	if fr.localOnly {
		return true
	}
	if fr.curBlock == nil {
		return false
	}
	for _, li := range fr.loops {
		if li.lc != nil && li.lc.LocalOnly && li.body[fr.curBlock.Index] {
			return true
		}
	}
	return false
}

// localWriteCheck: inside a `modifies local` loop every written cell must belong to an object
// allocated by this function activation.
func (fr *Frame) localWriteCheck(p Term, pos token.Pos) {
	if !fr.inLocalOnly() {
		return
	}
	fr.oblige("loop.local", "", Term{fmt.Sprintf("(>= (rootid %s) alloc@0)", p.S), SBool}, pos, "write inside a `modifies local` loop targets an object allocated by this function")
}

// assumeHere adds a fact that constrains pre-existing state (e.g. the content of freshly
// allocated, never-written cells): it must be guarded by the reachability of the current
// point, because exclusive branches reuse the same fresh object ids.
func (fr *Frame) assumeHere(t Term) { fr.c.assume(implies(fr.reach, t)) }

func (fr *Frame) binop(op token.Token, a, b Term, ta, tb, tr types.Type, va, vb ssa.Value, pos token.Pos) Term {
	c := fr.c
	switch op {
	case token.EQL, token.NEQ:
		var e Term
		_, isArr := ta.Underlying().(*types.Array)
		switch {
		case isArr:
			// (the zero value of an array type is a constant without a value, like nil)
			e = fr.arrayEq(a, b, ta.Underlying().(*types.Array))
		case va != nil && isNilConst(va):
			e = fr.isNil(b, tb)
		case vb != nil && isNilConst(vb):
			e = fr.isNil(a, ta)
		default:
			e = eq(a, b)
		}
		if op == token.NEQ {
			return not(e)
		}
		return e
	}
	if a.Sort == SStr {
		switch op {
		case token.ADD:
			r := app(SStr, "str_cat", a, b)
			c.assume(eq(app(SInt, "str_len", r), app(SInt, "+", app(SInt, "str_len", a), app(SInt, "str_len", b))))
			return r
		case token.LSS:
			return app(SBool, "str_lt", a, b)
		case token.GTR:
			return app(SBool, "str_lt", b, a)
		case token.LEQ:
			return not(app(SBool, "str_lt", b, a))
		case token.GEQ:
			return not(app(SBool, "str_lt", a, b))
		}
		unsupp("string binop %s", op)
	}
	if a.Sort == SF64 {
		name := "f64_" + map[token.Token]string{token.ADD: "add", token.SUB: "sub", token.MUL: "mul", token.QUO: "div",
			token.LSS: "lt", token.LEQ: "le", token.GTR: "gt", token.GEQ: "ge"}[op]
		switch op {
		case token.ADD, token.SUB, token.MUL, token.QUO:
			c.declareFun(name, []string{SF64, SF64}, SF64)
			return app(SF64, name, a, b)
		case token.LSS, token.LEQ, token.GTR, token.GEQ:
			c.declareFun(name, []string{SF64, SF64}, SBool)
			return app(SBool, name, a, b)
		}
		unsupp("float binop %s", op)
	}
	if a.Sort == SBool {
		switch op {
		case token.AND, token.LAND:
			return and(a, b)
		case token.OR, token.LOR:
			return or(a, b)
		}
		unsupp("bool binop %s", op)
	}
	switch op {
	case token.LSS:
		return app(SBool, "<", a, b)
	case token.LEQ:
		return app(SBool, "<=", a, b)
	case token.GTR:
		return app(SBool, ">", a, b)
	case token.GEQ:
		return app(SBool, ">=", a, b)
	}
	ii, ok := intInfoOf(tr)
	if !ok {
		unsupp("binop %s on %s", op, tr)
	}
	addw := func(t Term) Term {
		if ii.bits >= 32 {
			s := "s"
			if !ii.signed {
				s = "u"
			}
			return app(SInt, fmt.Sprintf("addw_%s%d", s, ii.bits), t)
		}
		return app(SInt, ii.wrapFn(), t)
	}
	isConst := func(t Term) bool {
		return !strings.ContainsAny(strings.Trim(t.S, "(- )"), "abcdefghijklmnopqrstuvwxyz!") && t.S != ""
	}
	switch op {
	case token.ADD:
		return addw(app(SInt, "+", a, b))
	case token.SUB:
		return addw(app(SInt, "-", a, b))
	case token.MUL:
		if isConst(a) || isConst(b) {
			return app(SInt, ii.wrapFn(), app(SInt, "*", a, b))
		}
		// nonlinear: exact product wrapped; solvers treat (* a b) as nonlinear arithmetic
		return app(SInt, ii.wrapFn(), app(SInt, "*", a, b))
	case token.QUO, token.REM:
		fr.oblige("safety.div", "", not(eq(b, tInt(0))), pos, "division by zero")
		// Go truncates toward zero; SMT div is floored/euclidean
		var q Term
		if !ii.signed {
			if op == token.QUO {
				return app(SInt, "div", a, b)
			}
			return app(SInt, "mod", a, b)
		}
		absa := Term{fmt.Sprintf("(abs %s)", a.S), SInt}
		absb := Term{fmt.Sprintf("(abs %s)", b.S), SInt}
		qa := app(SInt, "div", absa, absb)
		sameSign := Term{fmt.Sprintf("(= (>= %s 0) (>= %s 0))", a.S, b.S), SBool}
		q = ite(sameSign, qa, app(SInt, "-", qa))
		if op == token.QUO {
			return app(SInt, ii.wrapFn(), q)
		}
		return app(SInt, "-", a, app(SInt, "*", b, q))
	case token.SHL:
		if isConst(b) {
			// multiplication by power of two
			return app(SInt, ii.wrapFn(), app(SInt, "*", a, Term{pow2str(b.S), SInt}))
		}
		r := app(SInt, "ushl", a, b)
		n := c.fresh("shl", SInt)
		c.assumeDef(eq(n, r))
		c.assume(inRange(n, tr))
		return n
	case token.SHR:
		if isConst(b) && !strings.HasPrefix(b.S, "(-") {
			return app(SInt, "div", a, Term{pow2str(b.S), SInt})
		}
		r := app(SInt, "ushr", a, b)
		n := c.fresh("shr", SInt)
		c.assumeDef(eq(n, r))
		c.assume(inRange(n, tr))
		return n
	case token.AND:
		if isConst(b) {
			if m, ok := lowMask(b.S); ok && !ii.signed {
				return app(SInt, "mod", a, Term{m, SInt})
			}
		}
		return fr.bitop("uand", a, b, tr)
	case token.OR:
		// x | 1 is exact in integer arithmetic: sets the lowest bit
		if b.S == "1" && !ii.signed {
			return ite(eq(app(SInt, "mod", a, tInt(2)), tInt(0)), app(SInt, "+", a, tInt(1)), a)
		}
		if a.S == "1" && !ii.signed {
			return ite(eq(app(SInt, "mod", b, tInt(2)), tInt(0)), app(SInt, "+", b, tInt(1)), b)
		}
		return fr.bitop("uor", a, b, tr)
	case token.XOR:
		return fr.bitop("uxor", a, b, tr)
	case token.AND_NOT:
		return fr.bitop("uandnot", a, b, tr)
	}
	unsupp("binop %s", op)
	return Term{}
}

func (fr *Frame) bitop(name string, a, b Term, tr types.Type) Term {
	c := fr.c
	n := c.fresh(name, SInt)
	c.assumeDef(eq(n, app(SInt, name, a, b)))
	c.assume(inRange(n, tr))
	if name == "uand" {
		// x & y <= both for non-negative operands
		c.assume(Term{fmt.Sprintf("(=> (and (>= %s 0) (>= %s 0)) (and (<= %s %s) (<= %s %s) (>= %s 0)))", a.S, b.S, n.S, a.S, n.S, b.S, n.S), SBool})
	}
	return n
}

func pow2str(k string) string {
	var n int
	fmt.Sscanf(k, "%d", &n)
	r := "1"
	// big multiplication by doubling in decimal strings
	for i := 0; i < n; i++ {
		r = decDouble(r)
	}
	return r
}

func decDouble(s string) string {
	carry := 0
	out := make([]byte, 0, len(s)+1)
	for i := len(s) - 1; i >= 0; i-- {
		d := int(s[i]-'0')*2 + carry
		out = append(out, byte('0'+d%10))
		carry = d / 10
	}
	if carry > 0 {
		out = append(out, byte('0'+carry))
	}
	for i, j := 0, len(out)-1; i < j; i, j = i+1, j-1 {
		out[i], out[j] = out[j], out[i]
	}
	return string(out)
}

// lowMask recognises 2^k-1 constants, returning 2^k.
func lowMask(s string) (string, bool) {
	for k := 1; k <= 64; k++ {
		p := pow2str(fmt.Sprint(k))
		// p-1
		if decMinusOne(p) == s {
			return p, true
		}
	}
	return "", false
}

func decMinusOne(s string) string {
	b := []byte(s)
	i := len(b) - 1
	for i >= 0 && b[i] == '0' {
		b[i] = '9'
		i--
	}
	if i >= 0 {
		b[i]--
	}
	r := strings.TrimLeft(string(b), "0")
	if r == "" {
		return "0"
	}
	return r
}

// isNil tests a value of Go type t against nil.
func (fr *Frame) isNil(v Term, t types.Type) Term {
	switch v.Sort {
	case SPtr:
		return eq(v, tNilPtr)
	case SSlice:
		return eq(sliceBase(v), tNilPtr)
	case SIface:
		return eq(app(SInt, "itag", v), tInt(0))
	case SFn:
		return eq(v, Term{"fn_nil", SFn})
	}
	return eq(v, fr.c.zero(t))
}

func (fr *Frame) execConvert(x *ssa.Convert) {
	c := fr.c
	v := fr.val(x.X)
	from, to := x.X.Type(), x.Type()
	fs, ts := c.sortOf(from), c.sortOf(to)
	switch {
	case fs == SInt && ts == SInt:
		fi, _ := intInfoOf(from)
		ti, _ := intInfoOf(to)
		if ti.bits > fi.bits && ti.signed == fi.signed || (ti.bits > fi.bits && ti.signed && !fi.signed) || (ti == fi) {
			fr.vals[x] = v
		} else {
			fr.vals[x] = app(SInt, ti.wrapFn(), v)
		}
	case fs == SInt && ts == SF64:
		c.declareFun("f64_of_int", []string{SInt}, SF64)
		fr.vals[x] = app(SF64, "f64_of_int", v)
	case fs == SF64 && ts == SInt:
		c.declareFun("int_of_f64", []string{SF64}, SInt)
		n := c.fresh("f2i", SInt)
		c.assumeDef(eq(n, app(SInt, "int_of_f64", v)))
		c.assume(inRange(n, to))
		fr.vals[x] = n
	case fs == SF64 && ts == SF64:
		fr.vals[x] = v
	case fs == SStr && ts == SSlice:
		fr.vals[x] = fr.stringToBytes(v, x.X)
	case fs == SSlice && ts == SStr:
		fr.vals[x] = fr.bytesToString(v)
	case fs == SInt && ts == SStr:
		c.declareFun("str_of_rune", []string{SInt}, SStr)
		fr.vals[x] = app(SStr, "str_of_rune", v)
	case fs == SPtr && ts == SPtr:
		fr.vals[x] = v
	case fs == ts:
		fr.vals[x] = v
	default:
		unsupp("convert %s -> %s", from, to)
	}
}

func (fr *Frame) stringToBytes(s Term, src ssa.Value) Term {
	c := fr.c
	base := c.allocObj(fr.st)
	n := app(SInt, "str_len", s)
	c.assume(app(SBool, ">=", n, tInt(0)))
	capv := c.fresh("cap", SInt)
	c.assume(app(SBool, ">=", capv, n))
	res := mkSlice(base, tInt(0), n, capv)
	// the fresh cells hold the string's bytes (assumption about never-written memory)
	h := c.heap(fr.st, SInt)
	if k, ok := src.(*ssa.Const); ok && k.Value != nil && len(constStr(k)) <= 32 {
		str := constStr(k)
		for i := 0; i < len(str); i++ {
			fr.assumeHere(eq(sel(h, elemPtr(base, tInt(int64(i))), SInt), tInt(int64(str[i]))))
		}
	} else {
		fr.assumeHere(Term{fmt.Sprintf("(forall ((i Int)) (! (=> (and (<= 0 i) (< i %s)) (= (select %s (pelem %s i)) (str_at %s i))) :pattern ((select %s (pelem %s i)))))", n.S, h.S, base.S, s.S, h.S, base.S), SBool})
	}
	return res
}

func constStr(k *ssa.Const) string {
	s := k.Value.ExactString()
	if len(s) >= 2 && s[0] == '"' {
		var out string
		fmt.Sscanf(s, "%q", &out)
		return out
	}
	return s
}

func (fr *Frame) bytesToString(b Term) Term {
	c := fr.c
	r := c.fresh("str", SStr)
	c.assume(eq(app(SInt, "str_len", r), sliceLen(b)))
	h := c.heap(fr.st, SInt)
	c.assume(Term{fmt.Sprintf("(forall ((i Int)) (! (=> (and (<= 0 i) (< i (slen %s))) (= (str_at %s i) (select %s (pelem (sbase %s) (+ (soff %s) i))))) :pattern ((str_at %s i))))", b.S, r.S, h.S, b.S, b.S, r.S), SBool})
	return r
}

func (fr *Frame) execChangeType(x *ssa.ChangeType) {
	c := fr.c
	v := fr.val(x.X)
	ts := c.sortOf(x.Type())
	if v.Sort == ts {
		fr.vals[x] = v
		return
	}
	fu, ok1 := x.X.Type().Underlying().(*types.Struct)
	_, ok2 := x.Type().Underlying().(*types.Struct)
	if ok1 && ok2 {
		var fs []Term
		for i := 0; i < fu.NumFields(); i++ {
			fs = append(fs, c.structField(v, x.X.Type(), i))
		}
		fr.vals[x] = c.mkStruct(x.Type(), fs)
		return
	}
	unsupp("ChangeType %s -> %s", x.X.Type(), x.Type())
}

func (fr *Frame) execTypeAssert(x *ssa.TypeAssert) {
	c := fr.c
	v := fr.val(x.X)
	var ok, res Term
	at := x.AssertedType
	if _, isTP := types.Unalias(at).(*types.TypeParam); isTP && c.sortOf(at) == SIface {
		// assertion to a type parameter: the dynamic type is unknown, success unconstrained
		okc := c.fresh("tp_assert_ok", SBool)
		if x.CommaOk {
			fr.tuples[x] = []Term{ite(okc, v, c.zero(at)), okc}
			return
		}
		fr.oblige("safety.assert", "", okc, x.Pos(), "type assertion to type parameter")
		fr.vals[x] = v
		return
	}
	if types.IsInterface(at) {
		ok = fr.implements(v, at)
		res = v
	} else {
		tag := c.V.typeTag(at)
		ok = eq(app(SInt, "itag", v), tInt(int64(tag)))
		res = c.unbox(app(SInt, "iref", v), c.sortOf(at))
		// a value of the asserted type satisfies that type's invariant (ranges, slice shape)
		if res.Sort == SInt || res.Sort == SSlice || res.Sort == SIface {
			n := c.fresh("ta", res.Sort)
			c.assumeDef(eq(n, res))
			c.assumeTypeInv(n, at, fr.st)
			res = n
		}
	}
	if x.CommaOk {
		// failed assertion yields the zero value
		fr.tuples[x] = []Term{ite(ok, res, c.zero(at)), ok}
		return
	}
	fr.oblige("safety.assert", "", ok, x.Pos(), "type assertion to "+shortType(at))
	fr.vals[x] = res
}

// implements builds the predicate "dynamic type of v implements iface".
func (fr *Frame) implements(v Term, iface types.Type) Term { return fr.c.implements(v, iface) }

func (c *Ctx) implements(v Term, iface types.Type) Term {
	name := "impl_" + sanitizeIdent(shortType(iface))
	c.declareFun(name, []string{SInt}, SBool)
	if !c.assumed[name] {
		c.assumed[name] = true
		c.assumeAlways(not(app(SBool, name, tInt(0))))
	}
	it := iface.Underlying().(*types.Interface)
	// facts for all currently known tags
	var ids []int
	for id := range c.V.tagType {
		ids = append(ids, id)
	}
	sort.Ints(ids)
	for _, id := range ids {
		k := fmt.Sprintf("%s#%d", name, id)
		if c.assumed[k] {
			continue
		}
		c.assumed[k] = true
		t := c.V.tagType[id]
		impl := types.Implements(t, it)
		f := app(SBool, name, tInt(int64(id)))
		if !impl {
			f = not(f)
		}
		c.assume(f)
	}
	return app(SBool, name, app(SInt, "itag", v))
}

func (fr *Frame) execSlice(x *ssa.Slice) {
	c := fr.c
	v := fr.val(x.X)
	get := func(val ssa.Value, def Term) Term {
		if val == nil {
			return def
		}
		return fr.val(val)
	}
	switch t := x.X.Type().Underlying().(type) {
	case *types.Slice:
		lo := get(x.Low, tInt(0))
		hi := get(x.High, sliceLen(v))
		mx := get(x.Max, sliceCap(v))
		fr.oblige("safety.slice", "", Term{fmt.Sprintf("(and (<= 0 %s) (<= %s %s) (<= %s %s) (<= %s (scap %s)))", lo.S, lo.S, hi.S, hi.S, mx.S, mx.S, v.S), SBool}, x.Pos(), "slice bounds in range")
		fr.vals[x] = mkSlice(sliceBase(v), app(SInt, "+", sliceOff(v), lo), app(SInt, "-", hi, lo), app(SInt, "-", mx, lo))
	case *types.Basic:
		lo := get(x.Low, tInt(0))
		hi := get(x.High, app(SInt, "str_len", v))
		fr.oblige("safety.slice", "", Term{fmt.Sprintf("(and (<= 0 %s) (<= %s %s) (<= %s (str_len %s)))", lo.S, lo.S, hi.S, hi.S, v.S), SBool}, x.Pos(), "string slice bounds in range")
		r := c.fresh("substr", SStr)
		c.assumeDef(eq(r, app(SStr, "str_sub", v, lo, hi)))
		c.assume(eq(app(SInt, "str_len", r), app(SInt, "-", hi, lo)))
		c.assume(Term{fmt.Sprintf("(forall ((i Int)) (! (=> (and (<= 0 i) (< i (- %s %s))) (= (str_at %s i) (str_at %s (+ %s i)))) :pattern ((str_at %s i))))", hi.S, lo.S, r.S, v.S, lo.S, r.S), SBool})
		fr.vals[x] = r
	case *types.Pointer:
		arr := t.Elem().Underlying().(*types.Array)
		fr.nilCheck(v, x.Pos(), "slice of nil array pointer")
		n := tInt(arr.Len())
		lo := get(x.Low, tInt(0))
		hi := get(x.High, n)
		mx := get(x.Max, n)
		fr.oblige("safety.slice", "", Term{fmt.Sprintf("(and (<= 0 %s) (<= %s %s) (<= %s %s) (<= %s %s))", lo.S, lo.S, hi.S, hi.S, mx.S, mx.S, n.S), SBool}, x.Pos(), "array slice bounds in range")
		fr.vals[x] = mkSlice(v, lo, app(SInt, "-", hi, lo), app(SInt, "-", mx, lo))
	default:
		unsupp("Slice on %s", x.X.Type())
	}
}

// leafPaths enumerates the leaf cells of a type as a path of field/element steps.
type pstep struct {
	fld bool
	id  int64 // field id or constant element index
}

type leafPath struct {
	steps []pstep
	t     types.Type
}

func (lp leafPath) ptr(base Term) Term {
	p := base
	for _, s := range lp.steps {
		if s.fld {
			p = app(SPtr, "pfld", p, tInt(s.id))
		} else {
			p = elemPtr(p, tInt(s.id))
		}
	}
	return p
}

// match builds, for SMT variable p, the condition "p is this leaf of some cell X" and the
// term X (the cell the path starts from).
func (lp leafPath) match(p string) (cond []string, root string) {
	cur := p
	for i := len(lp.steps) - 1; i >= 0; i-- {
		s := lp.steps[i]
		if s.fld {
			cond = append(cond, fmt.Sprintf("((_ is pfld) %s)", cur), fmt.Sprintf("(= (pfid %s) %d)", cur, s.id))
			cur = fmt.Sprintf("(fbase %s)", cur)
		} else {
			cond = append(cond, fmt.Sprintf("((_ is pelem) %s)", cur), fmt.Sprintf("(= (eidx %s) %d)", cur, s.id))
			cur = fmt.Sprintf("(ebase %s)", cur)
		}
	}
	return cond, cur
}

// lastFieldID returns the field id of the final step if the leaf is a struct field.
func (lp leafPath) lastFieldID() (int, bool) {
	if len(lp.steps) == 0 {
		return 0, false
	}
	s := lp.steps[len(lp.steps)-1]
	return int(s.id), s.fld
}

func (c *Ctx) leafPaths(t types.Type) []leafPath {
	t = types.Unalias(t)
	switch u := t.Underlying().(type) {
	case *types.Struct:
		var out []leafPath
		for i := 0; i < u.NumFields(); i++ {
			fid := int64(c.V.fieldID(t, i))
			for _, lp := range c.leafPaths(u.Field(i).Type()) {
				out = append(out, leafPath{append([]pstep{{true, fid}}, lp.steps...), lp.t})
			}
		}
		return out
	case *types.Array:
		if u.Len() <= 32 {
			var out []leafPath
			for k := int64(0); k < u.Len(); k++ {
				for _, lp := range c.leafPaths(u.Elem()) {
					out = append(out, leafPath{append([]pstep{{false, k}}, lp.steps...), lp.t})
				}
			}
			return out
		}
		unsupp("leaf paths of large array %s", shortType(t))
	}
	return []leafPath{{nil, t}}
}

func (fr *Frame) execMakeSlice(x *ssa.MakeSlice) {
	c := fr.c
	ln := fr.val(x.Len)
	cp := fr.val(x.Cap)
	fr.oblige("safety.makeslice", "", Term{fmt.Sprintf("(and (<= 0 %s) (<= %s %s))", ln.S, ln.S, cp.S), SBool}, x.Pos(), "make: 0 <= len <= cap")
	base := c.allocObj(fr.st)
	et := x.Type().Underlying().(*types.Slice).Elem()
	// fresh cells read as zero (assumption on never-written memory)
	for _, lp := range c.leafPaths(et) {
		srt := c.sortOf(lp.t)
		h := c.heap(fr.st, srt)
		cell := lp.ptr(Term{"(pelem " + base.S + " i)", SPtr})
		fr.assumeHere(Term{fmt.Sprintf("(forall ((i Int)) (! (= (select %s %s) %s) :pattern ((select %s %s))))", h.S, cell.S, c.zero(lp.t).S, h.S, cell.S), SBool})
	}
	fr.vals[x] = mkSlice(base, tInt(0), ln, cp)
	fr.registerPrivate(x, base)
}

func (fr *Frame) execPanic(x *ssa.Panic) {
	top := fr.topFrame()
	if top.fc != nil && len(top.fc.PanicsWhen) > 0 {
		// allowed to panic exactly under the declared condition (evaluated at entry), also when
		// the panic statement sits in an inlined callee; and nothing may have been written yet
		fr.oblige("panic.when", "", top.panicCond(), x.Pos(), "explicit panic only under panics_when")
		fr.panicNoChange(x.Pos())
		return
	}
	if top.recovers || (top.fc != nil && top.fc.Recover) {
		return
	}
	fr.oblige("safety.panic", "", tFalse, x.Pos(), "explicit panic unreachable")
}

func (fr *Frame) runDefers() {
	for i := len(fr.defers) - 1; i >= 0; i-- {
		d := fr.defers[i]
		if !d.block.Dominates(fr.curBlock) {
			if !blockReaches(d.block, fr.curBlock) {
				continue // this return cannot follow the defer statement
			}
			// conditional defer: the call runs iff control passed through the defer statement
			passed := fr.blockReach[d.block.Index]
			before := fr.st.clone()
			saveReach := fr.reach
			fr.reach = and(saveReach, passed)
			fr.execCall(d.d, &d.d.Call)
			after := fr.st
			fr.reach = saveReach
			fr.st = fr.mergeStates([]inEdge{{guard: and(saveReach, passed), st: after}, {guard: and(saveReach, not(passed)), st: before}}, nil)
			continue
		}
		fr.execCall(d.d, &d.d.Call)
	}
}

func (fr *Frame) execGo(x *ssa.Go) {
	// A go statement only creates a separately verified thread entry (§2.9). The callee's
	// precondition, if it has a contract, is checked here.
	fr.c.note("go statement in %s: spawned body verified separately, interleavings not modelled", shortKey(funcKey(fr.fn)))
	fr.goSpawn(x)
}

func (fr *Frame) execSelect(x *ssa.Select) {
	c := fr.c
	tup := x.Type().(*types.Tuple)
	idx := c.fresh("select_idx", SInt)
	lo := 0
	if !x.Blocking {
		lo = -1
	}
	c.assume(Term{fmt.Sprintf("(and (<= %d %s) (< %s %d))", lo, idx.S, idx.S, len(x.States)), SBool})
	res := []Term{idx, c.fresh("select_ok", SBool)}
	for i := 2; i < tup.Len(); i++ {
		r := c.fresh("select_recv", c.sortOf(tup.At(i).Type()))
		c.assumeTypeInv(r, tup.At(i).Type(), fr.st)
		res = append(res, r)
	}
	fr.tuples[x] = res
	c.setGhost(fr.st, "select", idx)
	fr.selectHook(x, idx)
}

// blockReaches reports whether block to is reachable from block from in the CFG.
func blockReaches(from, to *ssa.BasicBlock) bool {
	seen := map[int]bool{}
	stack := []*ssa.BasicBlock{from}
	for len(stack) > 0 {
		b := stack[len(stack)-1]
		stack = stack[:len(stack)-1]
		if b == to {
			return true
		}
		if seen[b.Index] {
			continue
		}
		seen[b.Index] = true
		stack = append(stack, b.Succs...)
	}
	return false
}

// returnAsserts: `at return[k] assert e` — e must hold (with the locals visible there) at the
// k-th return statement in source order.
func (fr *Frame) returnAsserts(x *ssa.Return) {
	if fr.top != nil || fr.fc == nil {
		return
	}
	var has bool
	for _, cs := range fr.fc.CallSpecs {
		if cs.Kind == "retassert" {
			has = true
		}
	}
	if !has {
		return
	}
	ord := 0
	for _, b := range fr.fn.Blocks {
		if b == fr.fn.Recover {
			continue // synthetic return of the recover block: not a source return statement
		}
		for _, ins := range b.Instrs {
			// the implicit return at the end of a function body has no position: it is last
			if r, ok := ins.(*ssa.Return); ok && r != x && retPos(r) < retPos(x) {
				ord++
			}
		}
	}
	for _, cs := range fr.fc.CallSpecs {
		if cs.Kind != "retassert" || (cs.Ord >= 0 && cs.Ord != ord) {
			continue
		}
		env := fr.curEnv()
		rt := fr.fn.Signature.Results()
		for i, r := range x.Results {
			if _, isTup := r.Type().(*types.Tuple); isTup {
				continue
			}
			if v, ok := fr.tryVal(r); ok && i < rt.Len() {
				env.result = append(env.result, Binding{v, rt.At(i).Type()})
			}
		}
		t, err := env.evalBool(cs.E)
		if err != nil {
			panic(err)
		}
		fr.oblige("at.return", cs.Label, t, x.Pos(), "assertion at return: "+cs.Src)
		fr.callOrd["fired:"+cs.Src] = 1
	}
}

func retPos(r *ssa.Return) token.Pos {
	if !r.Pos().IsValid() {
		return token.Pos(1 << 40)
	}
	return r.Pos()
}

// panicCond: the declared panic condition of the function under verification, at entry.
func (top *Frame) panicCond() Term {
	var conds []Term
	for _, cl := range top.fc.PanicsWhen {
		env := top.entryEnv()
		t, err := env.evalBool(cl.E)
		if err != nil {
			panic(err)
		}
		conds = append(conds, t)
	}
	return or(conds...)
}

// panicNoChange: a declared panic leaves everything as it was — every heap at the panic point
// is the heap of the entry state.
func (fr *Frame) panicNoChange(pos token.Pos) {
	top := fr.topFrame()
	var cs []Term
	for _, hn := range sortedKeys(fr.st.heaps) {
		cur := fr.st.heaps[hn]
		ent, ok := top.entry.heaps[hn]
		if !ok {
			ent = fr.c.entryHeapByName(hn)
		}
		if cur.S == ent.S {
			continue
		}
		if strings.HasPrefix(hn, "H_") {
			// cells that existed at entry (locals spilled by the compiler are new objects)
			cs = append(cs, Term{fmt.Sprintf("(forall ((p Ptr)) (=> (< (rootid p) alloc@0) (= (select %s p) (select %s p))))", cur.S, ent.S), SBool})
		} else {
			cs = append(cs, eq(cur, ent))
		}
	}
	if len(cs) > 0 {
		fr.oblige("panic.nochange", "", and(cs...), pos, "nothing was written before the declared panic")
	}
}

// arrayEq: Go compares arrays element by element over their length; an SMT array is total, so
// equality of the array terms would also compare indices outside [0, len).
func (fr *Frame) arrayEq(a, b Term, at *types.Array) Term {
	if !strings.HasPrefix(a.Sort, "(Array Int ") {
		return eq(a, b)
	}
	es := arrayElemSort(a.Sort)
	if at.Len() <= 64 {
		var cs []Term
		for i := int64(0); i < at.Len(); i++ {
			cs = append(cs, eq(sel(a, tInt(i), es), sel(b, tInt(i), es)))
		}
		return and(cs...)
	}
	return Term{fmt.Sprintf("(forall ((i Int)) (=> (and (<= 0 i) (< i %d)) (= (select %s i) (select %s i))))", at.Len(), a.S, b.S), SBool}
}
