package main

import (
	"fmt"
	"go/types"
	"strconv"
	"strings"

	"golang.org/x/tools/go/ssa"
)

// Binding is an evaluated contract expression: a term plus (when known) its Go type.
type Binding struct {
	T  Term
	Ty types.Type
}

type evalError struct{ msg string }

func (e evalError) Error() string { return "contract: " + e.msg }

func evalFail(format string, a ...any) { panic(evalError{fmt.Sprintf(format, a...)}) }

// Env evaluates contract expressions in a given state.
type Env struct {
	c      *Ctx
	pkg    *types.Package
	vars   map[string]Binding
	local  func(name string) (Binding, bool)
	st     *State
	old    *Env
	result []Binding
	fr     *Frame
	qv     map[string]bool // names bound by quantifiers / explicit anchors (shadow everything)
	// dyn: for interface-typed parameters of a callee contract evaluated at a call site, the
	// static type of the value the actual argument was made from (MakeInterface operand)
	dyn map[string]types.Type
}

func (e *Env) with(name string, b Binding) *Env {
	n := *e
	n.vars = map[string]Binding{}
	for k, v := range e.vars {
		n.vars[k] = v
	}
	n.vars[name] = b
	n.qv = map[string]bool{}
	for k := range e.qv {
		n.qv[k] = true
	}
	n.qv[name] = true
	return &n
}

// withBoth binds a name in this environment and in its old() environment.
func (e *Env) withBoth(name string, b Binding) *Env {
	n := e.with(name, b)
	if e.old != nil {
		n.old = e.old.with(name, b)
	}
	return n
}

func (e *Env) evalBool(x Expr) (t Term, err error) {
	defer func() {
		if r := recover(); r != nil {
			if ee, ok := r.(evalError); ok {
				err = ee
				return
			}
			panic(r)
		}
	}()
	b := e.eval(x)
	if b.T.Sort != SBool {
		evalFail("expression %s is not boolean (sort %s)", exprString(x), b.T.Sort)
	}
	return b.T, nil
}

func (e *Env) mustBool(x Expr) Term {
	t, err := e.evalBool(x)
	if err != nil {
		panic(err)
	}
	return t
}

func (e *Env) eval(x Expr) Binding {
	c := e.c
	switch x := x.(type) {
	case EInt:
		if strings.HasPrefix(x.Val, "0x") {
			n, err := strconv.ParseUint(x.Val[2:], 16, 64)
			if err != nil {
				evalFail("bad literal %s", x.Val)
			}
			return Binding{tBigInt(strconv.FormatUint(n, 10)), types.Typ[types.Int]}
		}
		return Binding{tBigInt(x.Val), types.Typ[types.Int]}
	case EBool:
		return Binding{tBool(x.Val), types.Typ[types.Bool]}
	case EStr:
		return Binding{c.strLit(x.Val), types.Typ[types.String]}
	case ENil:
		return Binding{tNilPtr, types.Typ[types.UntypedNil]}
	case EIdent:
		return e.ident(x.Name)
	case EGhost:
		return Binding{c.ghost(e.st, x.Name), c.ghostGoType(x.Name)}
	case EOld:
		if e.old == nil {
			evalFail("old() not available here")
		}
		return e.old.eval(x.X)
	case EUnary:
		v := e.eval(x.X)
		switch x.Op {
		case "!":
			return Binding{not(v.T), v.Ty}
		case "-":
			return Binding{app(SInt, "-", v.T), v.Ty}
		}
	case EDeref:
		v := e.eval(x.X)
		pt, ok := v.Ty.Underlying().(*types.Pointer)
		if !ok {
			evalFail("deref of non-pointer %s", exprString(x.X))
		}
		return Binding{c.load(e.st, v.T, pt.Elem()), pt.Elem()}
	case EBinary:
		return e.binary(x)
	case ECond:
		cnd := e.eval(x.C)
		a := e.eval(x.A)
		b := e.eval(x.B)
		a, b = e.unifyNil(a, b)
		return Binding{ite(cnd.T, a.T, b.T), a.Ty}
	case EQuant:
		return e.quant(x)
	case ESel:
		return e.selector(x)
	case EIndex:
		return e.index(x)
	case EUpdate:
		a := e.eval(x.X)
		i := e.eval(x.I)
		v := e.eval(x.V)
		if !strings.HasPrefix(a.T.Sort, "(Array ") {
			evalFail("update of non-array %s", exprString(x.X))
		}
		return Binding{sto(a.T, i.T, v.T), a.Ty}
	case ECall:
		return e.call(x)
	}
	evalFail("cannot evaluate %s", exprString(x))
	return Binding{}
}

func (e *Env) unifyNil(a, b Binding) (Binding, Binding) {
	if isUntypedNil(a.Ty) && !isUntypedNil(b.Ty) {
		a = Binding{e.nilOf(b), b.Ty}
	} else if isUntypedNil(b.Ty) && !isUntypedNil(a.Ty) {
		b = Binding{e.nilOf(a), a.Ty}
	}
	return a, b
}

func isUntypedNil(t types.Type) bool {
	b, ok := t.(*types.Basic)
	return ok && b.Kind() == types.UntypedNil
}

func (e *Env) nilOf(b Binding) Term {
	switch b.T.Sort {
	case SPtr:
		return tNilPtr
	case SSlice:
		return Term{"nilslice", SSlice}
	case SIface:
		return Term{"niliface", SIface}
	case SFn:
		return Term{"fn_nil", SFn}
	}
	evalFail("nil compared with sort %s", b.T.Sort)
	return Term{}
}

func (e *Env) ident(name string) Binding {
	c := e.c
	if e.qv[name] {
		return e.vars[name]
	}
	// source-level locals (current values) shadow the entry values of parameters
	if e.local != nil {
		if b, ok := e.local(name); ok {
			return b
		}
	}
	if b, ok := e.vars[name]; ok {
		return b
	}
	if name == "result" {
		if len(e.result) == 0 {
			evalFail("no result here")
		}
		return e.result[0]
	}
	if sf, ok := c.V.CS.Specs[name]; ok && len(sf.Params) == 0 {
		c.declareSpec(sf, e)
		spkg := e.pkg
		if dp := c.declPkg(sf.Pkg); dp != nil {
			spkg = dp
		}
		return Binding{Term{"spec_" + name, c.specSort(sf.Ret, spkg)}, nil}
	}
	if e.pkg != nil {
		if obj := e.pkg.Scope().Lookup(name); obj != nil {
			return e.object(obj)
		}
	}
	if obj := types.Universe.Lookup(name); obj != nil {
		if k, ok := obj.(*types.Const); ok {
			return Binding{c.constTerm(k.Val(), k.Type()), k.Type()}
		}
	}
	evalFail("unknown identifier %q", name)
	return Binding{}
}

func (e *Env) object(obj types.Object) Binding {
	c := e.c
	switch o := obj.(type) {
	case *types.Const:
		return Binding{c.constTerm(o.Val(), o.Type()), o.Type()}
	case *types.Var:
		// package-level variable
		key := o.Pkg().Path() + "." + o.Name()
		p := app(SPtr, "pobj", tInt(int64(c.V.globalID(key))))
		return Binding{c.load(e.st, p, o.Type()), o.Type()}
	case *types.Func:
		if f := c.V.P.SSA.FuncValue(o); f != nil {
			return Binding{c.fnConst(f), o.Type()}
		}
	}
	evalFail("cannot use %s here", obj.Name())
	return Binding{}
}

func (e *Env) selector(x ESel) Binding {
	c := e.c
	// package-qualified name
	if id, ok := x.X.(EIdent); ok {
		if _, bound := e.vars[id.Name]; !bound {
			isLocal := false
			if e.local != nil {
				_, isLocal = e.local(id.Name)
			}
			if !isLocal && e.pkg != nil {
				for _, imp := range e.pkg.Imports() {
					if imp.Name() == id.Name {
						obj := imp.Scope().Lookup(x.Name)
						if obj == nil {
							evalFail("%s.%s not found", id.Name, x.Name)
						}
						return e.object(obj)
					}
				}
			}
		}
		if id.Name == "result" {
			if n, err := strconv.Atoi(x.Name); err == nil {
				if n >= len(e.result) {
					evalFail("result.%d out of range", n)
				}
				return e.result[n]
			}
		}
	}
	v := e.eval(x.X)
	if v.Ty == nil {
		evalFail("selector %s on untyped spec value", exprString(x))
	}
	t := v.Ty
	isPtr := false
	if p, ok := t.Underlying().(*types.Pointer); ok {
		t = p.Elem()
		isPtr = true
	}
	st, ok := t.Underlying().(*types.Struct)
	if !ok {
		evalFail("selector %s: %s is not a struct", exprString(x), t)
	}
	path, ft := findField(st, x.Name)
	if path == nil {
		evalFail("no field %s in %s", x.Name, shortType(t))
	}
	cur := v.T
	curT := t
	if isPtr {
		for _, i := range path {
			cur = c.fieldPtr(cur, curT, i)
			curT = curT.Underlying().(*types.Struct).Field(i).Type()
			if p, ok := curT.Underlying().(*types.Pointer); ok && i != path[len(path)-1] {
				// embedded pointer: load it and continue
				cur = c.load(e.st, cur, curT)
				curT = p.Elem()
			}
		}
		return Binding{c.load(e.st, cur, ft), ft}
	}
	for _, i := range path {
		cur = c.structField(cur, curT, i)
		curT = curT.Underlying().(*types.Struct).Field(i).Type()
	}
	return Binding{cur, ft}
}

// findField finds a (possibly promoted, one level) field by name.
func findField(st *types.Struct, name string) ([]int, types.Type) {
	for i := 0; i < st.NumFields(); i++ {
		if st.Field(i).Name() == name {
			return []int{i}, st.Field(i).Type()
		}
	}
	for i := 0; i < st.NumFields(); i++ {
		f := st.Field(i)
		if !f.Embedded() {
			continue
		}
		ft := f.Type()
		if p, ok := ft.Underlying().(*types.Pointer); ok {
			ft = p.Elem()
		}
		if inner, ok := ft.Underlying().(*types.Struct); ok {
			if p, t := findField(inner, name); p != nil {
				return append([]int{i}, p...), t
			}
		}
	}
	return nil, nil
}

func (e *Env) index(x EIndex) Binding {
	c := e.c
	a := e.eval(x.X)
	i := e.eval(x.I)
	if strings.HasPrefix(a.T.Sort, "(Array ") && (a.Ty == nil || !isArrayType(a.Ty)) {
		return Binding{sel(a.T, i.T, arrayElemSort(a.T.Sort)), nil}
	}
	if a.Ty == nil {
		evalFail("index of untyped value %s", exprString(x.X))
	}
	switch u := a.Ty.Underlying().(type) {
	case *types.Slice:
		return Binding{c.load(e.st, sliceElemPtr(a.T, i.T), u.Elem()), u.Elem()}
	case *types.Array:
		return Binding{sel(a.T, i.T, c.sortOf(u.Elem())), u.Elem()}
	case *types.Map:
		// Go semantics: the zero value for a key that is not in the map
		mv := c.mapVal(e.st, u)
		raw := sel(sel(mv, a.T, arrayElemSort(mv.Sort)), i.T, c.sortOf(u.Elem()))
		return Binding{ite(c.mapHas(e.st, a.T, i.T, u), raw, c.zero(u.Elem())), u.Elem()}
	case *types.Basic:
		return Binding{app(SInt, "str_at", a.T, i.T), types.Typ[types.Uint8]}
	case *types.Pointer:
		if arr, ok := u.Elem().Underlying().(*types.Array); ok {
			return Binding{c.load(e.st, elemPtr(a.T, i.T), arr.Elem()), arr.Elem()}
		}
	}
	evalFail("cannot index %s", exprString(x.X))
	return Binding{}
}

func isArrayType(t types.Type) bool {
	_, ok := t.Underlying().(*types.Array)
	return ok
}

// arrayElemSort extracts V from "(Array K V)".
func arrayElemSort(s string) string {
	_, v := splitArraySort(s)
	return v
}

func splitArraySort(s string) (string, string) {
	inner := strings.TrimSuffix(strings.TrimPrefix(s, "(Array "), ")")
	depth := 0
	for i := 0; i < len(inner); i++ {
		switch inner[i] {
		case '(':
			depth++
		case ')':
			depth--
		case ' ':
			if depth == 0 {
				return inner[:i], inner[i+1:]
			}
		}
	}
	return inner, ""
}

func (e *Env) binary(x EBinary) Binding {
	switch x.Op {
	case "&&":
		return Binding{and(e.eval(x.X).T, e.eval(x.Y).T), types.Typ[types.Bool]}
	case "||":
		return Binding{or(e.eval(x.X).T, e.eval(x.Y).T), types.Typ[types.Bool]}
	case "==>":
		return Binding{implies(e.eval(x.X).T, e.eval(x.Y).T), types.Typ[types.Bool]}
	case "<==>":
		return Binding{eq(e.eval(x.X).T, e.eval(x.Y).T), types.Typ[types.Bool]}
	}
	a := e.eval(x.X)
	b := e.eval(x.Y)
	switch x.Op {
	case "==", "!=":
		var t Term
		switch {
		case isUntypedNil(a.Ty) && !isUntypedNil(b.Ty):
			t = e.nilTest(b)
		case isUntypedNil(b.Ty) && !isUntypedNil(a.Ty):
			t = e.nilTest(a)
		default:
			if a.T.Sort != b.T.Sort {
				evalFail("comparison of different sorts %s vs %s in %s", a.T.Sort, b.T.Sort, exprString(x))
			}
			t = eq(a.T, b.T)
		}
		if x.Op == "!=" {
			t = not(t)
		}
		return Binding{t, types.Typ[types.Bool]}
	case "<", "<=", ">", ">=":
		if a.T.Sort != SInt || b.T.Sort != SInt {
			evalFail("ordering on non-integers in %s", exprString(x))
		}
		return Binding{app(SBool, x.Op, a.T, b.T), types.Typ[types.Bool]}
	case "+", "-", "*":
		if a.T.Sort != SInt || b.T.Sort != SInt {
			evalFail("arithmetic on non-integers in %s", exprString(x))
		}
		return Binding{app(SInt, x.Op, a.T, b.T), a.Ty}
	case "/":
		return Binding{app(SInt, "div", a.T, b.T), a.Ty}
	case "%":
		return Binding{app(SInt, "mod", a.T, b.T), a.Ty}
	}
	evalFail("operator %s not supported in contracts", x.Op)
	return Binding{}
}

func (e *Env) nilTest(b Binding) Term {
	switch b.T.Sort {
	case SPtr:
		return eq(b.T, tNilPtr)
	case SSlice:
		return eq(sliceBase(b.T), tNilPtr)
	case SIface:
		return eq(app(SInt, "itag", b.T), tInt(0))
	case SFn:
		return eq(b.T, Term{"fn_nil", SFn})
	}
	evalFail("nil test on sort %s", b.T.Sort)
	return Term{}
}

func (e *Env) quant(x EQuant) Binding {
	c := e.c
	env := e
	var decl []string
	var oldEnv *Env
	if e.old != nil {
		oldEnv = e.old
	}
	for _, v := range x.Vars {
		ty, srt := c.resolveType(v.Type, e.pkg)
		name := "q_" + sanitizeIdent(v.Name)
		decl = append(decl, fmt.Sprintf("(%s %s)", name, srt))
		b := Binding{Term{name, srt}, ty}
		env = env.with(v.Name, b)
		if oldEnv != nil {
			oldEnv = oldEnv.with(v.Name, b)
		}
	}
	env.old = oldEnv
	body := env.eval(x.Body)
	// integer-typed Go quantified variables range over their type
	return Binding{Term{fmt.Sprintf("(%s (%s) %s)", x.Kind, strings.Join(decl, " "), body.T.S), SBool}, types.Typ[types.Bool]}
}

// resolveType maps a contract type name to (Go type or nil, SMT sort).
func (c *Ctx) resolveType(name string, pkg *types.Package) (types.Type, string) {
	name = strings.TrimSpace(name)
	switch name {
	case "int":
		return types.Typ[types.Int], SInt
	case "mathint":
		return nil, SInt
	case "bool":
		return types.Typ[types.Bool], SBool
	case "string":
		return types.Typ[types.String], SStr
	case "ptr":
		return nil, SPtr
	case "iface", "error":
		if name == "error" {
			return types.Universe.Lookup("error").Type(), SIface
		}
		return nil, SIface
	case "slice":
		return nil, SSlice
	case "fn":
		return nil, SFn
	}
	if strings.HasPrefix(name, "map[") {
		// spec map: map[K]V -> (Array K V)
		depth := 0
		for i := 3; i < len(name); i++ {
			if name[i] == '[' {
				depth++
			} else if name[i] == ']' {
				depth--
				if depth == 0 {
					_, ks := c.resolveType(name[4:i], pkg)
					_, vs := c.resolveType(name[i+1:], pkg)
					return nil, fmt.Sprintf("(Array %s %s)", ks, vs)
				}
			}
		}
	}
	if strings.HasPrefix(name, "set[") && strings.HasSuffix(name, "]") {
		_, ks := c.resolveType(name[4:len(name)-1], pkg)
		return nil, fmt.Sprintf("(Array %s Bool)", ks)
	}
	if strings.HasPrefix(name, "*") {
		t, _ := c.resolveType(name[1:], pkg)
		if t == nil {
			return nil, SPtr
		}
		return types.NewPointer(t), SPtr
	}
	if strings.HasPrefix(name, "[]") {
		t, _ := c.resolveType(name[2:], pkg)
		if t == nil {
			return nil, SSlice
		}
		return types.NewSlice(t), SSlice
	}
	// qualified: {path}.T or alias.T
	var scope *types.Scope
	tn := name
	if strings.HasPrefix(name, "{") {
		i := strings.Index(name, "}.")
		path := name[1:i]
		tn = name[i+2:]
		if p := c.V.P.ByPath[path]; p != nil {
			scope = p.Types.Scope()
		}
	} else if i := strings.LastIndex(name, "."); i >= 0 {
		if pkg != nil {
			for _, imp := range pkg.Imports() {
				// several imports may share a package name (…/common/v1, …/resource/v1): the one
				// that declares the type
				if imp.Name() == name[:i] && imp.Scope().Lookup(name[i+1:]) != nil {
					scope = imp.Scope()
					tn = name[i+1:]
				}
			}
		}
		if scope == nil {
			// by import path, or by unique package name among the loaded packages
			if p := c.V.P.ByPath[name[:i]]; p != nil {
				scope = p.Types.Scope()
				tn = name[i+1:]
			} else {
				for _, p := range c.V.P.ByPath {
					if p.Types != nil && p.Types.Name() == name[:i] {
						scope = p.Types.Scope()
						tn = name[i+1:]
						break
					}
				}
			}
		}
	} else if pkg != nil {
		scope = pkg.Scope()
	}
	if scope != nil {
		if obj, ok := scope.Lookup(tn).(*types.TypeName); ok {
			return obj.Type(), c.sortOf(obj.Type())
		}
	}
	evalFail("unknown type %q in contract", name)
	return nil, ""
}

func (c *Ctx) specSort(name string, pkg *types.Package) string {
	_, s := c.resolveType(name, pkg)
	return s
}

// ---- ghost variables ------------------------------------------------------------------

// declPkg returns the types.Package a contract file's package path refers to (nil for specs).
func (c *Ctx) declPkg(path string) *types.Package {
	if p := c.V.P.ByPath[path]; p != nil {
		return p.Types
	}
	return nil
}

func (c *Ctx) ghostGoType(name string) types.Type {
	gd, ok := c.V.CS.Ghosts[name]
	if !ok {
		return nil
	}
	ty, _ := c.resolveType(gd.Type, c.declPkg(gd.Pkg))
	return ty
}

func (c *Ctx) ghostEntry(name string) Term {
	gd, ok := c.V.CS.Ghosts[name]
	if !ok {
		evalFail("undeclared ghost variable $%s", name)
	}
	_, srt := c.resolveType(gd.Type, c.declPkg(gd.Pkg))
	n := "g_" + name + "@0"
	c.declare(n, srt)
	return Term{n, srt}
}

func (c *Ctx) ghost(st *State, name string) Term {
	if g, ok := st.ghosts[name]; ok {
		return g
	}
	g := c.ghostEntry(name)
	st.ghosts[name] = g
	return g
}

func (c *Ctx) setGhost(st *State, name string, v Term) {
	g := c.ghostEntry(name)
	if v.S == "pnil" {
		// the untyped nil literal takes the ghost's sort
		switch g.Sort {
		case SIface:
			v = Term{"niliface", SIface}
		case SSlice:
			v = Term{"nilslice", SSlice}
		case SFn:
			v = Term{"fn_nil", SFn}
		}
	}
	if g.Sort != v.Sort {
		evalFail("ghost $%s has sort %s, assigned %s", name, g.Sort, v.Sort)
	}
	n := c.fresh("g_"+name, v.Sort)
	c.assumeDef(eq(n, v))
	st.ghosts[name] = n
}

// ---- spec functions -----------------------------------------------------------------

func (c *Ctx) declareSpec(sf *SpecFunc, e *Env) {
	name := "spec_" + sf.Name
	if c.declared[name] {
		return
	}
	var psorts []string
	var pdecl []string
	spkg := e.pkg
	if dp := c.declPkg(sf.Pkg); dp != nil {
		spkg = dp
	}
	env := &Env{c: c, pkg: spkg, vars: map[string]Binding{}, st: e.st}
	for _, p := range sf.Params {
		ty, srt := c.resolveType(p.Type, spkg)
		psorts = append(psorts, srt)
		pn := "a_" + sanitizeIdent(p.Name)
		pdecl = append(pdecl, fmt.Sprintf("(%s %s)", pn, srt))
		env.vars[p.Name] = Binding{Term{pn, srt}, ty}
	}
	ret := c.specSort(sf.Ret, spkg)
	if sf.Body == nil {
		c.declareFun(name, psorts, ret)
		return
	}
	// reserve the name first to allow (non-recursive) nesting
	c.declared[name] = true
	body := env.eval(sf.Body)
	if body.T.Sort != ret {
		evalFail("spec func %s: body sort %s, declared %s", sf.Name, body.T.Sort, ret)
	}
	c.decls = append(c.decls, fmt.Sprintf("(define-fun %s (%s) %s %s)", name, strings.Join(pdecl, " "), ret, body.T.S))
}

func (e *Env) call(x ECall) Binding {
	c := e.c
	arg := func(i int) Binding {
		if i >= len(x.Args) {
			evalFail("%s: missing argument %d", x.Fun, i)
		}
		return e.eval(x.Args[i])
	}
	switch x.Fun {
	case "len":
		a := arg(0)
		switch a.T.Sort {
		case SSlice:
			c.sliceShape(a.T)
			return Binding{sliceLen(a.T), types.Typ[types.Int]}
		case SStr:
			return Binding{app(SInt, "str_len", a.T), types.Typ[types.Int]}
		case SPtr:
			if a.Ty != nil {
				if m, ok := a.Ty.Underlying().(*types.Map); ok {
					return Binding{c.mapLenTerm(e.st, a.T, m), types.Typ[types.Int]}
				}
			}
		}
		evalFail("len of %s", exprString(x.Args[0]))
	case "cap":
		a := arg(0)
		if a.T.Sort == SSlice {
			c.sliceShape(a.T)
			return Binding{sliceCap(a.T), types.Typ[types.Int]}
		}
		evalFail("cap of %s", exprString(x.Args[0]))
	case "has":
		m := arg(0)
		k := arg(1)
		mt, ok := m.Ty.Underlying().(*types.Map)
		if !ok {
			evalFail("has() on non-map")
		}
		return Binding{c.mapHas(e.st, m.T, k.T, mt), types.Typ[types.Bool]}
	case "addr":
		// address of a field path: addr(x.f)
		s, ok := x.Args[0].(ESel)
		if !ok {
			evalFail("addr() needs a field selector")
		}
		v := e.eval(s.X)
		pt, ok := v.Ty.Underlying().(*types.Pointer)
		if !ok {
			evalFail("addr(): base is not a pointer")
		}
		st := pt.Elem().Underlying().(*types.Struct)
		path, ft := findField(st, s.Name)
		if len(path) != 1 {
			evalFail("addr(): field %s", s.Name)
		}
		return Binding{c.fieldPtr(v.T, pt.Elem(), path[0]), types.NewPointer(ft)}
	case "elemaddr":
		s := arg(0)
		i := arg(1)
		var et types.Type
		if s.Ty != nil {
			if sl, ok := s.Ty.Underlying().(*types.Slice); ok {
				et = types.NewPointer(sl.Elem())
			}
		}
		return Binding{sliceElemPtr(s.T, i.T), et}
	case "fresh":
		p := arg(0)
		if e.old == nil {
			evalFail("fresh() needs an old state")
		}
		switch p.T.Sort {
		case SPtr:
			return Binding{Term{fmt.Sprintf("(and (not (= %s pnil)) ((_ is pobj) %s) (>= (rootid %s) %s) (< (rootid %s) %s))", p.T.S, p.T.S, p.T.S, e.old.st.alloc.S, p.T.S, e.st.alloc.S), SBool}, types.Typ[types.Bool]}
		case SSlice:
			return Binding{Term{fmt.Sprintf("(and (>= (rootid (sbase %s)) %s) (< (rootid (sbase %s)) %s))", p.T.S, e.old.st.alloc.S, p.T.S, e.st.alloc.S), SBool}, types.Typ[types.Bool]}
		}
		evalFail("fresh() on sort %s", p.T.Sort)
	case "isnew":
		// isnew(x): x (pointer or slice) refers to an object allocated by this function activation
		p := arg(0)
		b := p.T
		if p.T.Sort == SSlice {
			b = sliceBase(p.T)
		}
		return Binding{Term{fmt.Sprintf("(>= (rootid %s) alloc@0)", b.S), SBool}, types.Typ[types.Bool]}
	case "substr":
		a, lo, hi := arg(0), arg(1), arg(2)
		return Binding{app(SStr, "str_sub", a.T, lo.T, hi.T), types.Typ[types.String]}
	case "samearray":
		a, b := arg(0), arg(1)
		return Binding{eq(sliceBase(a.T), sliceBase(b.T)), types.Typ[types.Bool]}
	case "offsetof":
		a := arg(0)
		return Binding{sliceOff(a.T), types.Typ[types.Int]}
	case "samebase":
		a, b := arg(0), arg(1)
		return Binding{Term{fmt.Sprintf("(and (= (sbase %s) (sbase %s)) (= (soff %s) (soff %s)))", a.T.S, b.T.S, a.T.S, b.T.S), SBool}, types.Typ[types.Bool]}
	case "allocated":
		p := arg(0)
		return Binding{Term{fmt.Sprintf("(< (rootid %s) %s)", p.T.S, e.st.alloc.S), SBool}, types.Typ[types.Bool]}
	case "istype":
		v := arg(0)
		id, ok := x.Args[1].(EIdent)
		var tn string
		if ok {
			tn = id.Name
		} else if s, ok := x.Args[1].(ESel); ok {
			tn = exprString(s)
		} else if d, ok := x.Args[1].(EDeref); ok {
			tn = "*" + exprString(d.X)
		} else {
			evalFail("istype(x, T)")
		}
		ty, _ := c.resolveType(tn, e.pkg)
		if ty == nil {
			evalFail("istype: unknown type %s", tn)
		}
		return Binding{eq(app(SInt, "itag", v.T), tInt(int64(c.V.typeTag(ty)))), types.Typ[types.Bool]}
	case "dyn":
		// dyn(x, T): payload of interface x viewed as T
		v := arg(0)
		tn := exprString(x.Args[1])
		if d, ok := x.Args[1].(EDeref); ok {
			tn = "*" + exprString(d.X)
		}
		ty, srt := c.resolveType(tn, e.pkg)
		return Binding{c.unbox(app(SInt, "iref", v.T), srt), ty}
	case "iface":
		// iface(x, T): the interface value holding x with dynamic type T
		v := arg(0)
		tn := exprString(x.Args[1])
		if d, ok := x.Args[1].(EDeref); ok {
			tn = "*" + exprString(d.X)
		}
		ty, _ := c.resolveType(tn, e.pkg)
		if ty == nil {
			evalFail("iface: unknown type %s", tn)
		}
		return Binding{app(SIface, "mkiface", tInt(int64(c.V.typeTag(ty))), c.box(v.T)), nil}
	case "tagof":
		tn := exprString(x.Args[0])
		if d, ok := x.Args[0].(EDeref); ok {
			tn = "*" + exprString(d.X)
		}
		ty, _ := c.resolveType(tn, e.pkg)
		if ty == nil {
			evalFail("tagof: unknown type %s", tn)
		}
		return Binding{tInt(int64(c.V.typeTag(ty))), nil}
	case "deref":
		// deref(x): the value the pointer held in interface x points to (dynamic type known
		// from the call site)
		v := arg(0)
		pt := e.dynPointer(x.Args[0])
		p := c.unbox(app(SInt, "iref", v.T), SPtr)
		return Binding{c.load(e.st, p, pt.Elem()), pt.Elem()}
	case "boxed":
		v := arg(0)
		return Binding{c.box(v.T), nil}
	case "unboxas":
		v := arg(0)
		tn := exprString(x.Args[1])
		if d, ok := x.Args[1].(EDeref); ok {
			tn = "*" + exprString(d.X)
		}
		ty, srt := c.resolveType(tn, e.pkg)
		return Binding{c.unbox(v.T, srt), ty}
	case "zero":
		tn := exprString(x.Args[0])
		ty, _ := c.resolveType(tn, e.pkg)
		if ty == nil {
			evalFail("zero: unknown type %s", tn)
		}
		return Binding{c.zero(ty), ty}
	case "implements":
		v := arg(0)
		tn := exprString(x.Args[1])
		ty, _ := c.resolveType(tn, e.pkg)
		if ty == nil || !types.IsInterface(ty) {
			evalFail("implements: %s is not an interface type", tn)
		}
		return Binding{c.implements(v.T, ty), types.Typ[types.Bool]}
	case "typetag":
		v := arg(0)
		return Binding{app(SInt, "itag", v.T), nil}
	case "held":
		p := e.muAddr(x.Args[0])
		return Binding{sel(c.ghost(e.st, "held"), p, SBool), types.Typ[types.Bool]}
	case "min":
		a, b := arg(0), arg(1)
		return Binding{ite(app(SBool, "<=", a.T, b.T), a.T, b.T), a.Ty}
	case "max":
		a, b := arg(0), arg(1)
		return Binding{ite(app(SBool, ">=", a.T, b.T), a.T, b.T), a.Ty}
	case "int":
		return arg(0)
	case "iterpos":
		// iterpos(k): number of completed Next() calls of the map range loop[k]
		if e.fr == nil {
			evalFail("iterpos outside a function")
		}
		return e.fr.iterPos(x, e)
	case "iterkey":
		if e.fr == nil {
			evalFail("iterkey outside a function")
		}
		return e.fr.iterKey(x, e)
	case "iterposof":
		// iterposof(k, key): the position of key in the iteration order of the map range loop[k]
		if e.fr == nil || len(x.Args) != 2 {
			evalFail("iterposof(loop, key) inside a function")
		}
		it := e.fr.iterOfLoop(ECall{x.Fun, x.Args[:1]}, e)
		k := e.eval(x.Args[1])
		return Binding{app(SInt, it.pos, k.T), types.Typ[types.Int]}
	case "constmap":
		// constmap(m, v): the map of m's type that holds v for every key
		a, v := arg(0), arg(1)
		return Binding{Term{fmt.Sprintf("((as const %s) %s)", a.T.Sort, v.T.S), a.T.Sort}, a.Ty}
	case "atloop":
		// atloop(k, x): the value the local x has at the header of the ENCLOSING loop[k] in its
		// current iteration (the header phi of x) — lets an inner loop's invariant or a measure
		// relate the cursor to where the enclosing iteration started
		if e.fr == nil || len(x.Args) != 2 {
			evalFail("atloop(loop, local) inside a function")
		}
		lit, ok := x.Args[0].(EInt)
		id, ok2 := x.Args[1].(EIdent)
		if !ok || !ok2 {
			evalFail("atloop needs a literal loop ordinal and a local's name")
		}
		var k int
		fmt.Sscanf(lit.Val, "%d", &k)
		for _, li := range e.fr.loops {
			if li.ordinal != k {
				continue
			}
			for _, ins := range li.header.Instrs {
				phi, isPhi := ins.(*ssa.Phi)
				if !isPhi {
					break
				}
				if phi.Comment == id.Name {
					if t, ok := e.fr.tryVal(phi); ok {
						return Binding{t, phi.Type()}
					}
					evalFail("atloop(%d, %s): used outside loop[%d]", k, id.Name, k)
				}
			}
			evalFail("atloop(%d, %s): the loop does not change %s", k, id.Name, id.Name)
		}
		evalFail("atloop: no loop[%d]", k)
	case "iterdom":
		// iterdom(k, key): key belongs to the domain snapshot taken when the map range loop[k] began
		if e.fr == nil {
			evalFail("iterdom outside a function")
		}
		if len(x.Args) != 2 {
			evalFail("iterdom(loop, key)")
		}
		it := e.fr.iterOfLoop(ECall{x.Fun, x.Args[:1]}, e)
		k := e.eval(x.Args[1])
		return Binding{sel(it.dom0, k.T, SBool), types.Typ[types.Bool]}
	}
	if sf, ok := c.V.CS.Specs[x.Fun]; ok && sf.Macro {
		// macro: the body is evaluated in the current state with the parameters bound
		if len(sf.Params) != len(x.Args) {
			evalFail("spec macro %s: arity", x.Fun)
		}
		env := e
		spkg := e.pkg
		if dp := c.declPkg(sf.Pkg); dp != nil {
			spkg = dp
		}
		for i, p := range sf.Params {
			a := arg(i)
			pty, _ := c.resolveType(p.Type, spkg)
			if isUntypedNil(a.Ty) && pty != nil {
				a = Binding{c.zero(pty), pty}
			}
			if a.Ty == nil {
				a.Ty = pty
			}
			env = env.withBoth(p.Name, a)
		}
		saved := env.pkg
		env.pkg = spkg
		if env.old != nil {
			env.old.pkg = spkg
		}
		r := env.eval(sf.Body)
		env.pkg = saved
		return r
	}
	if sf, ok := c.V.CS.Specs[x.Fun]; ok {
		c.declareSpec(sf, e)
		if len(sf.Params) != len(x.Args) {
			evalFail("spec func %s: arity", x.Fun)
		}
		var args []Term
		spkg := e.pkg
		if dp := c.declPkg(sf.Pkg); dp != nil {
			spkg = dp
		}
		for i := range x.Args {
			a := arg(i)
			_, want := c.resolveType(sf.Params[i].Type, spkg)
			if isUntypedNil(a.Ty) {
				a = Binding{e.nilOf(Binding{Term{"", want}, nil}), nil}
			}
			if a.T.Sort != want {
				evalFail("spec func %s: argument %d has sort %s, want %s", x.Fun, i, a.T.Sort, want)
			}
			args = append(args, a.T)
		}
		rt, rs := c.resolveType(sf.Ret, spkg)
		return Binding{app(rs, "spec_"+x.Fun, args...), rt}
	}
	evalFail("unknown function %s in contract", x.Fun)
	return Binding{}
}

// muAddr evaluates the address of a mutex field expression like x.mu.
func (e *Env) muAddr(x Expr) Term {
	s, ok := x.(ESel)
	if !ok {
		v := e.eval(x)
		if v.T.Sort == SPtr {
			return v.T
		}
		evalFail("held(): need a mutex field")
	}
	v := e.eval(s.X)
	pt, ok := v.Ty.Underlying().(*types.Pointer)
	if !ok {
		evalFail("held(): base is not a pointer")
	}
	st := pt.Elem().Underlying().(*types.Struct)
	path, _ := findField(st, s.Name)
	if len(path) != 1 {
		evalFail("held(): field %s", s.Name)
	}
	return e.c.fieldPtr(v.T, pt.Elem(), path[0])
}

// dynPointer returns the pointer type held by an interface-typed parameter at this call site.
func (e *Env) dynPointer(x Expr) *types.Pointer {
	id, ok := x.(EIdent)
	if !ok {
		evalFail("dynamic type of %s is only known for parameters", exprString(x))
	}
	t := e.dyn[id.Name]
	if t == nil && e.old != nil {
		t = e.old.dyn[id.Name]
	}
	if t == nil {
		evalFail("dynamic type of %s not known at this call site (argument is not a conversion to interface)", id.Name)
	}
	pt, ok := t.Underlying().(*types.Pointer)
	if !ok {
		evalFail("dynamic type %s of %s is not a pointer", t, id.Name)
	}
	return pt
}

// sliceShape: a slice a contract measures is a Go slice (0 <= len <= cap); stated for ground terms
// only (a term under a quantifier cannot be assumed about).
func (c *Ctx) sliceShape(t Term) {
	if strings.Contains(t.S, "q_") || c.shapeDone[t.S] {
		return
	}
	if c.shapeDone == nil {
		c.shapeDone = map[string]bool{}
	}
	c.shapeDone[t.S] = true
	c.assume(Term{fmt.Sprintf("(and (<= 0 (soff %[1]s)) (<= 0 (slen %[1]s)) (<= (slen %[1]s) (scap %[1]s)) (<= (scap %[1]s) 9223372036854775807))", t.S), SBool})
}
