package main

import (
	"encoding/json"
	"fmt"
	"os"
)

type ReplayResult struct {
	Reproduced bool   `json:"reproduced"`
	Test       string `json:"test,omitempty"`
	Output     string `json:"output,omitempty"`
	Inputs     any    `json:"inputs,omitempty"`
	Note       string `json:"note,omitempty"`
}

// tryReplay turns a model into a failing input of the real code where a builder exists.
func tryReplay(prop string, o *Obligation) *ReplayResult {
	return nil
}

func cmdReplay(args []string) int {
	if len(args) < 1 {
		usage()
	}
	data, err := os.ReadFile(args[0])
	if err != nil {
		fmt.Fprintln(os.Stderr, err)
		return 2
	}
	var rec map[string]any
	if err := json.Unmarshal(data, &rec); err != nil {
		fmt.Fprintln(os.Stderr, err)
		return 2
	}
	fmt.Printf("property:   %v\nobligation: %v\nwhat:       %v\nverdict:    %v (%v)\n", rec["property"], rec["obligation"], rec["what"], rec["verdict"], rec["solver"])
	if m, ok := rec["model"].(string); ok {
		fmt.Println("model (counterexample to the obligation):")
		fmt.Println(truncate(m, 3000))
	}
	if q, ok := rec["query"].(string); ok {
		// re-run the stored query
		dir := mkWorkDir()
		defer os.RemoveAll(dir)
		r := solve(&Query{Name: "replay", Text: q}, dir, 30, nil)
		fmt.Printf("re-running stored query: %s (%s, %.2fs)\n", r.Verdict, r.Solver, r.TimeS)
	}
	if rp, ok := rec["replay"]; ok {
		b, _ := json.MarshalIndent(rp, "", " ")
		fmt.Println("replay on real code:", string(b))
	}
	return 0
}
