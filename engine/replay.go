package main

import (
	"encoding/json"
	"fmt"
	"go/types"
	"os"
	"os/exec"
	"path/filepath"
	"regexp"
	"strings"

	"golang.org/x/tools/go/ssa"
)

type ReplayResult struct {
	Reproduced bool   `json:"reproduced"`
	Test       string `json:"test,omitempty"`
	Output     string `json:"output,omitempty"`
	Inputs     any    `json:"inputs,omitempty"`
	Note       string `json:"note,omitempty"`
}

// replaySpec describes a free function whose parameters and results are all scalars (integers,
// booleans) of builtin types or of named types of its own package: a solver model of a failed
// postcondition can then be run on the real code by an injected in-package test.
type replaySpec struct {
	FuncName   string   // Go identifier in its package
	PkgDir     string   // absolute directory of the package
	PkgName    string   // package clause
	ModuleDir  string   // directory containing go.mod
	ParamTerms []string // SMT terms of the parameters
	ParamTypes []string // Go type expressions (in-package spelling)
	ParamBool  []bool
	ResTerms   []string
	ResBool    []bool
	ReqTerms   []string // SMT terms of the preconditions at entry
}

func scalarGoType(t types.Type, own *types.Package) (string, bool, bool) {
	b, ok := t.Underlying().(*types.Basic)
	if !ok {
		return "", false, false
	}
	isBool := b.Info()&types.IsBoolean != 0
	if !isBool && b.Info()&types.IsInteger == 0 {
		return "", false, false
	}
	switch n := types.Unalias(t).(type) {
	case *types.Basic:
		return n.Name(), isBool, true
	case *types.Named:
		if n.Obj().Pkg() == own {
			return n.Obj().Name(), isBool, true
		}
	}
	return "", false, false
}

func scalarReplaySpec(fn *ssa.Function, params []Term, results []Term, P *Program) *replaySpec {
	if fn.Signature.Recv() != nil || fn.Parent() != nil || fn.Pkg == nil || fn.TypeParams().Len() > 0 || len(results) == 0 || len(params) != len(fn.Params) {
		return nil
	}
	own := fn.Pkg.Pkg
	rs := &replaySpec{FuncName: fn.Name(), PkgName: own.Name()}
	for i, p := range fn.Params {
		gt, isBool, ok := scalarGoType(p.Type(), own)
		if !ok {
			return nil
		}
		rs.ParamTerms = append(rs.ParamTerms, params[i].S)
		rs.ParamTypes = append(rs.ParamTypes, gt)
		rs.ParamBool = append(rs.ParamBool, isBool)
	}
	rt := fn.Signature.Results()
	if rt.Len() != len(results) {
		return nil
	}
	for i := 0; i < rt.Len(); i++ {
		_, isBool, ok := scalarGoType(rt.At(i).Type(), own)
		if !ok {
			return nil
		}
		rs.ResTerms = append(rs.ResTerms, results[i].S)
		rs.ResBool = append(rs.ResBool, isBool)
	}
	pkg := P.ByPath[own.Path()]
	if pkg == nil || len(pkg.GoFiles) == 0 {
		return nil
	}
	rs.PkgDir = filepath.Dir(pkg.GoFiles[0])
	d := rs.PkgDir
	for d != "/" {
		if _, err := os.Stat(filepath.Join(d, "go.mod")); err == nil {
			rs.ModuleDir = d
			break
		}
		d = filepath.Dir(d)
	}
	if rs.ModuleDir == "" {
		return nil
	}
	return rs
}

var modelValRe = regexp.MustCompile(`(?s)\(define-fun\s+(\S+)\s+\(\)\s+(Int|Bool)\s+(\(-\s*\d+\)|-?\d+|true|false)\)`)

// tryReplay runs the solver's model of a failed postcondition of a scalar free function on the
// real code: the parameters of the model are passed to the real function by an injected in-package
// test; the values it returns are then fixed in the stored query — if the negated postcondition is
// still satisfiable, the real input/output pair violates the postcondition.
func tryReplay(prop string, o *Obligation) *ReplayResult {
	rs := o.replay
	if rs == nil || o.Res.Verdict == "unsat" {
		return nil
	}
	dir := mkWorkDir()
	defer os.RemoveAll(dir)
	model := o.Res.Model
	candidate := ""
	if o.Res.Verdict != "sat" {
		// the solvers could not decide the full query (quantified assumptions): a model of its
		// quantifier-free part is only a candidate — it counts for nothing unless the real code,
		// run on it, returns values that falsify the postcondition (checked below without any
		// assumption)
		var b strings.Builder
		for _, l := range strings.Split(o.Query, "\n") {
			if strings.HasPrefix(l, "(assert ") && (strings.Contains(l, "(forall ") || strings.Contains(l, "(exists ")) {
				continue
			}
			b.WriteString(l)
			b.WriteByte('\n')
		}
		r := solve(&Query{Name: "model-candidate", Text: b.String()}, dir, 15, nil)
		if r.Verdict != "sat" {
			return nil
		}
		model = r.Model
		candidate = " (candidate model of the quantifier-free part of the query)"
	}
	vals := map[string]string{}
	for _, m := range modelValRe.FindAllStringSubmatch(model, -1) {
		vals[m[1]] = m[3]
	}
	goLit := func(v string, isBool bool) string {
		v = strings.TrimSpace(v)
		if isBool {
			return v
		}
		if strings.HasPrefix(v, "(-") {
			return "-" + strings.TrimSpace(strings.Trim(v[2:], " )"))
		}
		return v
	}
	var args, inputs []string
	for i, pt := range rs.ParamTerms {
		v, ok := vals[pt]
		if !ok {
			// a parameter the model does not mention is irrelevant to the failure: zero
			v = "0"
			if rs.ParamBool[i] {
				v = "false"
			}
		}
		lit := goLit(v, rs.ParamBool[i])
		if rs.ParamBool[i] {
			args = append(args, lit)
		} else {
			args = append(args, fmt.Sprintf("%s(%s)", rs.ParamTypes[i], lit))
		}
		inputs = append(inputs, fmt.Sprintf("%s = %s", pt, v))
	}
	var lhs, prints []string
	for i := range rs.ResTerms {
		lhs = append(lhs, fmt.Sprintf("r%d", i))
		if rs.ResBool[i] {
			prints = append(prints, fmt.Sprintf("fmt.Sprintf(\"%%t\", r%d)", i))
		} else {
			prints = append(prints, fmt.Sprintf("fmt.Sprintf(\"%%d\", r%d)", i))
		}
	}
	test := fmt.Sprintf("package %s\n\nimport (\n\t\"fmt\"\n\t\"strings\"\n\t\"testing\"\n)\n\n// Generated by gvc from a solver model of a failed postcondition.\nfunc TestVerifModelReplay(t *testing.T) {\n\t%s := %s(%s)\n\tfmt.Println(\"VERIF-RESULT \" + strings.Join([]string{%s}, \"|\"))\n}\n",
		rs.PkgName, strings.Join(lhs, ", "), rs.FuncName, strings.Join(args, ", "), strings.Join(prints, ", "))
	tf := filepath.Join(dir, "zz_verif_model_replay_test.go")
	_ = os.WriteFile(tf, []byte(test), 0o644)
	ov := filepath.Join(dir, "ov.json")
	ovj, _ := json.Marshal(map[string]any{"Replace": map[string]string{filepath.Join(rs.PkgDir, "zz_verif_model_replay_test.go"): tf}})
	_ = os.WriteFile(ov, ovj, 0o644)
	rel, _ := filepath.Rel(rs.ModuleDir, rs.PkgDir)
	cmd := exec.Command("go", "test", "-overlay", ov, "-vet=off", "-v", "-count=1", "-timeout", "60s", "-run", "^TestVerifModelReplay$", "./"+rel)
	cmd.Dir = rs.ModuleDir
	cmd.Env = append(os.Environ(), "GOFLAGS=-mod=mod", "GOPROXY=off", "GOSUMDB=off", "GOTOOLCHAIN=local")
	outB, _ := cmd.CombinedOutput()
	out := string(outB)
	res := &ReplayResult{Test: test, Output: truncate(out, 1500), Inputs: inputs}
	var got []string
	for _, l := range strings.Split(out, "\n") {
		if strings.HasPrefix(l, "VERIF-RESULT ") {
			got = strings.Split(strings.TrimPrefix(l, "VERIF-RESULT "), "|")
		}
	}
	if len(got) != len(rs.ResTerms) {
		res.Note = "the generated test did not run (see output); the model is not replayed"
		return res
	}
	// The deciding step uses no assumption at all: declarations only, the parameters fixed to the
	// inputs, the results fixed to what the real code returned. Every precondition must be valid
	// and the postcondition must be unsatisfiable under these values — then the real input/output
	// pair falsifies the postcondition whatever the other symbols mean.
	smtLit := func(v string, isBool bool) string {
		if isBool || !strings.HasPrefix(v, "-") {
			return v
		}
		return "(- " + v[1:] + ")"
	}
	var fix strings.Builder
	for i, pt := range rs.ParamTerms {
		if v, ok := vals[pt]; ok {
			fmt.Fprintf(&fix, "(assert (= %s %s))\n", pt, v)
		} else if rs.ParamBool[i] {
			fmt.Fprintf(&fix, "(assert (= %s false))\n", pt)
		} else {
			fmt.Fprintf(&fix, "(assert (= %s 0))\n", pt)
		}
	}
	for i, rt := range rs.ResTerms {
		fmt.Fprintf(&fix, "(assert (= %s %s))\n", rt, smtLit(got[i], rs.ResBool[i]))
	}
	var hb strings.Builder
	for _, l := range strings.Split(o.Query, "\n") {
		if strings.HasPrefix(l, "(assert ") || strings.HasPrefix(l, "(check-sat") || strings.HasPrefix(l, "(get-model") {
			continue
		}
		hb.WriteString(l)
		hb.WriteByte('\n')
	}
	head := hb.String()
	res.Inputs = map[string]any{"parameters": inputs, "real_results": got, "model": "solver model" + candidate}
	for _, rq := range rs.ReqTerms {
		r := solve(&Query{Name: "model-replay-pre", Text: head + fix.String() + "(assert (not " + rq + "))\n(check-sat)\n"}, dir, 10, nil)
		if r.Verdict != "unsat" {
			res.Note = "the model's inputs are not shown to satisfy the function's precondition: not replayed"
			return res
		}
	}
	r := solve(&Query{Name: "model-replay", Text: head + fix.String() + "(assert " + o.Cond.S + ")\n(check-sat)\n"}, dir, 20, nil)
	call := fmt.Sprintf("%s(%s)", rs.FuncName, strings.Join(args, ", "))
	if r.Verdict == "unsat" {
		res.Reproduced = true
		res.Note = fmt.Sprintf("%s on the real code returns %s; the postcondition is unsatisfiable with these inputs and outputs fixed (no assumption used): the real input/output pair violates it", call, strings.Join(got, ", "))
	} else {
		res.Note = fmt.Sprintf("%s on the real code returns %s, which is not shown to falsify the postcondition (%s): the model does not replay", call, strings.Join(got, ", "), r.Verdict)
	}
	return res
}

func cmdReplay(args []string) int {
	if len(args) < 1 {
		usage()
	}
	data, err := os.ReadFile(args[0])
	if err != nil {
		fmt.Fprintln(os.Stderr, err)
		return 2
	}
	var rec map[string]any
	if err := json.Unmarshal(data, &rec); err != nil {
		fmt.Fprintln(os.Stderr, err)
		return 2
	}
	fmt.Printf("property:   %v\nobligation: %v\nwhat:       %v\nverdict:    %v (%v)\n", rec["property"], rec["obligation"], rec["what"], rec["verdict"], rec["solver"])
	if m, ok := rec["model"].(string); ok {
		fmt.Println("model (counterexample to the obligation):")
		fmt.Println(truncate(m, 3000))
	}
	if q, ok := rec["query"].(string); ok {
		// re-run the stored query
		dir := mkWorkDir()
		defer os.RemoveAll(dir)
		r := solve(&Query{Name: "replay", Text: q}, dir, 30, nil)
		fmt.Printf("re-running stored query: %s (%s, %.2fs)\n", r.Verdict, r.Solver, r.TimeS)
	}
	if rp, ok := rec["replay"]; ok {
		b, _ := json.MarshalIndent(rp, "", " ")
		fmt.Println("replay on real code:", string(b))
	}
	return 0
}
