package main

import (
	"bytes"
	"context"
	"crypto/sha1"
	"fmt"
	"os"
	"os/exec"
	"path/filepath"
	"regexp"
	"sort"
	"strings"
	"time"
)

// Term is an SMT-LIB term with its sort.
type Term struct {
	S    string
	Sort string
}

func (t Term) String() string { return t.S }

const (
	SInt   = "Int"
	SBool  = "Bool"
	SStr   = "Str"
	SPtr   = "Ptr"
	SSlice = "Slice"
	SIface = "Iface"
	SFn    = "Fn"
	SF64   = "F64"
	SUnit  = "Unit"
)

func app(sort string, f string, args ...Term) Term {
	var b strings.Builder
	b.WriteByte('(')
	b.WriteString(f)
	for _, a := range args {
		b.WriteByte(' ')
		b.WriteString(a.S)
	}
	b.WriteByte(')')
	return Term{b.String(), sort}
}

func tInt(n int64) Term {
	if n < 0 {
		return Term{fmt.Sprintf("(- %d)", -n), SInt}
	}
	return Term{fmt.Sprintf("%d", n), SInt}
}

func tBigInt(s string) Term {
	if strings.HasPrefix(s, "-") {
		return Term{"(- " + s[1:] + ")", SInt}
	}
	return Term{s, SInt}
}

var tTrue = Term{"true", SBool}
var tFalse = Term{"false", SBool}
var tNilPtr = Term{"pnil", SPtr}

func tBool(b bool) Term {
	if b {
		return tTrue
	}
	return tFalse
}

func and(ts ...Term) Term {
	var xs []Term
	for _, t := range ts {
		if t.S == "true" {
			continue
		}
		if t.S == "false" {
			return tFalse
		}
		xs = append(xs, t)
	}
	if len(xs) == 0 {
		return tTrue
	}
	if len(xs) == 1 {
		return xs[0]
	}
	return app(SBool, "and", xs...)
}

func or(ts ...Term) Term {
	var xs []Term
	for _, t := range ts {
		if t.S == "false" {
			continue
		}
		if t.S == "true" {
			return tTrue
		}
		xs = append(xs, t)
	}
	if len(xs) == 0 {
		return tFalse
	}
	if len(xs) == 1 {
		return xs[0]
	}
	return app(SBool, "or", xs...)
}

func not(t Term) Term {
	if t.S == "true" {
		return tFalse
	}
	if t.S == "false" {
		return tTrue
	}
	if strings.HasPrefix(t.S, "(not ") {
		return Term{t.S[5 : len(t.S)-1], SBool}
	}
	return app(SBool, "not", t)
}

func implies(a, b Term) Term {
	if a.S == "true" {
		return b
	}
	if a.S == "false" || b.S == "true" {
		return tTrue
	}
	return app(SBool, "=>", a, b)
}

func eq(a, b Term) Term {
	if a.S == b.S {
		return tTrue
	}
	return app(SBool, "=", a, b)
}

func ite(c, a, b Term) Term {
	if c.S == "true" {
		return a
	}
	if c.S == "false" {
		return b
	}
	if a.S == b.S {
		return a
	}
	return app(a.Sort, "ite", c, a, b)
}

func sel(arr, idx Term, vs string) Term { return app(vs, "select", arr, idx) }
func sto(arr, idx, v Term) Term         { return app(arr.Sort, "store", arr, idx, v) }

// prelude is the fixed background theory of every query.
const prelude = `(set-option :produce-models true)
(set-logic ALL)
(declare-sort Str 0)
(declare-sort F64 0)
(declare-sort Fn 0)
(declare-datatypes ((Unit 0)) (((unit))))
(declare-datatypes ((Ptr 0)) (((pnil) (pobj (pid Int)) (pfld (fbase Ptr) (pfid Int)) (pelem (ebase Ptr) (eidx Int)))))
(declare-datatypes ((Slice 0)) (((mkslice (sbase Ptr) (soff Int) (slen Int) (scap Int)))))
(declare-datatypes ((Iface 0)) (((mkiface (itag Int) (iref Int)))))
(define-fun-rec rootid ((p Ptr)) Int (ite ((_ is pobj) p) (pid p) (ite ((_ is pfld) p) (rootid (fbase p)) (ite ((_ is pelem) p) (rootid (ebase p)) 0))))
(define-fun nilslice () Slice (mkslice pnil 0 0 0))
(define-fun niliface () Iface (mkiface 0 0))
(declare-fun str_len (Str) Int)
(declare-fun str_at (Str Int) Int)
(declare-fun str_cat (Str Str) Str)
(declare-fun str_sub (Str Int Int) Str)
(declare-fun str_lt (Str Str) Bool)
(declare-fun str_of_bytes (Int) Str)
(declare-const str_empty Str)
(assert (= (str_len str_empty) 0))
(assert (forall ((s Str)) (! (and (<= 0 (str_len s)) (<= (str_len s) 9223372036854775807)) :pattern ((str_len s)))))
(declare-const fn_nil Fn)
(declare-const f64_zero F64)
(define-fun wrap_s64 ((x Int)) Int (let ((m (mod x 18446744073709551616))) (ite (>= m 9223372036854775808) (- m 18446744073709551616) m)))
(define-fun wrap_s32 ((x Int)) Int (let ((m (mod x 4294967296))) (ite (>= m 2147483648) (- m 4294967296) m)))
(define-fun wrap_s16 ((x Int)) Int (let ((m (mod x 65536))) (ite (>= m 32768) (- m 65536) m)))
(define-fun wrap_s8 ((x Int)) Int (let ((m (mod x 256))) (ite (>= m 128) (- m 256) m)))
(define-fun wrap_u64 ((x Int)) Int (mod x 18446744073709551616))
(define-fun wrap_u32 ((x Int)) Int (mod x 4294967296))
(define-fun wrap_u16 ((x Int)) Int (mod x 65536))
(define-fun wrap_u8 ((x Int)) Int (mod x 256))
(define-fun addw_s64 ((x Int)) Int (ite (> x 9223372036854775807) (- x 18446744073709551616) (ite (< x (- 9223372036854775808)) (+ x 18446744073709551616) x)))
(define-fun addw_u64 ((x Int)) Int (ite (> x 18446744073709551615) (- x 18446744073709551616) (ite (< x 0) (+ x 18446744073709551616) x)))
(define-fun addw_s32 ((x Int)) Int (ite (> x 2147483647) (- x 4294967296) (ite (< x (- 2147483648)) (+ x 4294967296) x)))
(define-fun addw_u32 ((x Int)) Int (ite (> x 4294967295) (- x 4294967296) (ite (< x 0) (+ x 4294967296) x)))
(declare-fun umul (Int Int) Int)
(declare-fun ushl (Int Int) Int)
(declare-fun ushr (Int Int) Int)
(declare-fun uand (Int Int) Int)
(declare-fun uor (Int Int) Int)
(declare-fun uxor (Int Int) Int)
(declare-fun uandnot (Int Int) Int)
(declare-fun udiv (Int Int) Int)
(declare-fun urem (Int Int) Int)
`

// Query is one obligation ready for the solvers.
type Query struct {
	Name  string
	Text  string // full SMT-LIB script ending with (check-sat)(get-model)
	Kind  string
	Label string
}

type SolveResult struct {
	Verdict string // unsat | sat | unknown
	Solver  string
	TimeS   float64
	Model   string
	Outputs map[string]string
}

var solverCmds = []struct {
	name string
	argv func(file string, timeoutS int) []string
}{
	{"z3-new", func(f string, t int) []string { return []string{"z3-new", fmt.Sprintf("-T:%d", t), f} }},
	{"z3", func(f string, t int) []string { return []string{"z3", fmt.Sprintf("-T:%d", t), f} }},
	{"cvc5", func(f string, t int) []string {
		return []string{"cvc5", "--lang=smt2", fmt.Sprintf("--tlimit=%d", t*1000), f}
	}},
}

// solve races the solvers on one query. First definite answer wins.
func solve(q *Query, dir string, timeoutS int, want []string) SolveResult {
	// the sanitised name is truncated: a hash of the full name and text keeps files of different
	// obligations apart (they are solved in parallel)
	h := sha1.Sum([]byte(q.Name + "\x00" + q.Text))
	file := filepath.Join(dir, fmt.Sprintf("%s.%x.smt2", sanitize(q.Name), h[:6]))
	_ = os.WriteFile(file, []byte(q.Text), 0o644)
	type res struct {
		solver  string
		verdict string
		out     string
		t       float64
	}
	ctx, cancel := context.WithTimeout(context.Background(), time.Duration(timeoutS+2)*time.Second)
	defer cancel()
	ch := make(chan res, len(solverCmds))
	n := 0
	hasLambda := strings.Contains(q.Text, "(lambda ")
	for _, sc := range solverCmds {
		if len(want) > 0 && !contains(want, sc.name) {
			continue
		}
		if sc.name == "cvc5" && hasLambda {
			continue
		}
		n++
		go func(name string, argv []string) {
			t0 := time.Now()
			cmd := exec.CommandContext(ctx, argv[0], argv[1:]...)
			var out bytes.Buffer
			cmd.Stdout = &out
			cmd.Stderr = &out
			_ = cmd.Run()
			s := out.String()
			first := strings.TrimSpace(strings.SplitN(s, "\n", 2)[0])
			v := "unknown"
			if first == "unsat" {
				v = "unsat"
			} else if first == "sat" {
				v = "sat"
			}
			ch <- res{name, v, s, time.Since(t0).Seconds()}
		}(sc.name, sc.argv(file, timeoutS))
	}
	outs := map[string]string{}
	best := SolveResult{Verdict: "unknown", Outputs: outs}
	tot := 0.0
	for i := 0; i < n; i++ {
		r := <-ch
		outs[r.solver] = truncate(r.out, 4000)
		if r.t > tot {
			tot = r.t
		}
		if r.verdict == "unsat" || r.verdict == "sat" {
			cancel()
			best = SolveResult{Verdict: r.verdict, Solver: r.solver, TimeS: r.t, Outputs: outs}
			if r.verdict == "sat" {
				if i := strings.Index(r.out, "\n"); i >= 0 {
					best.Model = r.out[i+1:]
				}
			}
			return best
		}
	}
	best.TimeS = tot
	return best
}

func truncate(s string, n int) string {
	if len(s) > n {
		return s[:n] + "...[truncated]"
	}
	return s
}

func contains(xs []string, x string) bool {
	for _, y := range xs {
		if y == x {
			return true
		}
	}
	return false
}

var sanRe = regexp.MustCompile(`[^A-Za-z0-9_.#-]+`)

func sanitize(s string) string {
	s = sanRe.ReplaceAllString(s, "_")
	if len(s) > 150 {
		s = s[:150]
	}
	return s
}

// ---- cone of influence over assertions --------------------------------------------

var symRe = regexp.MustCompile(`[A-Za-z_$!][A-Za-z0-9_$!.@#]*`)

// symbolsOf returns the declared (non-prelude) symbols occurring in s.
func symbolsOf(s string, declared map[string]bool) []string {
	seen := map[string]bool{}
	var out []string
	for _, m := range symRe.FindAllString(s, -1) {
		if declared[m] && !seen[m] {
			seen[m] = true
			out = append(out, m)
		}
	}
	return out
}

// sliceFacts keeps only the facts transitively sharing a symbol with the goal. Dropping
// assumptions is sound (the query only gets harder to refute).
func sliceFacts(facts []string, factSyms [][]string, goalSyms []string, always []bool) []int {
	bySym := map[string][]int{}
	for i, ss := range factSyms {
		for _, s := range ss {
			bySym[s] = append(bySym[s], i)
		}
	}
	inc := make([]bool, len(facts))
	seenSym := map[string]bool{}
	work := append([]string{}, goalSyms...)
	for i, a := range always {
		if a {
			inc[i] = true
			work = append(work, factSyms[i]...)
		}
	}
	for len(work) > 0 {
		s := work[len(work)-1]
		work = work[:len(work)-1]
		if seenSym[s] {
			continue
		}
		seenSym[s] = true
		for _, i := range bySym[s] {
			if !inc[i] {
				inc[i] = true
				work = append(work, factSyms[i]...)
			}
		}
	}
	var out []int
	for i, b := range inc {
		if b {
			out = append(out, i)
		}
	}
	sort.Ints(out)
	return out
}
