package main

import (
	"fmt"
	"strings"
	"unicode"
)

// Contract expression language (Gobra-like, over Go syntax):
//   e ::= lit | ident | $ghost | e.f | e[i] | e[i := v] | f(args) | old(e) | !e | -e
//       | e op e   (op: * / % + - == != < <= > >= && || ==> <==>)
//       | c ? a : b | forall x T, y T :: e | exists x T :: e | (e)
//       | len(e) | cap(e) | typeof(e) ...

type Expr interface{ exprNode() }

type EIdent struct{ Name string }
type EGhost struct{ Name string }
type EInt struct{ Val string }
type EStr struct{ Val string }
type EBool struct{ Val bool }
type ENil struct{}
type EUnary struct {
	Op string
	X  Expr
}
type EBinary struct {
	Op   string
	X, Y Expr
}
type ECall struct {
	Fun  string
	Args []Expr
}
type ESel struct {
	X    Expr
	Name string
}
type EIndex struct{ X, I Expr }
type EUpdate struct{ X, I, V Expr }
type EQuant struct {
	Kind string // forall | exists
	Vars []QVar
	Body Expr
}
type QVar struct{ Name, Type string }
type ECond struct{ C, A, B Expr }
type EOld struct{ X Expr }
type EDeref struct{ X Expr }

func (EIdent) exprNode()  {}
func (EGhost) exprNode()  {}
func (EInt) exprNode()    {}
func (EStr) exprNode()    {}
func (EBool) exprNode()   {}
func (ENil) exprNode()    {}
func (EUnary) exprNode()  {}
func (EBinary) exprNode() {}
func (ECall) exprNode()   {}
func (ESel) exprNode()    {}
func (EIndex) exprNode()  {}
func (EUpdate) exprNode() {}
func (EQuant) exprNode()  {}
func (ECond) exprNode()   {}
func (EOld) exprNode()    {}
func (EDeref) exprNode()  {}

type etoken struct {
	kind string // id, ghost, int, str, op, eof
	val  string
}

func lexExpr(s string) ([]etoken, error) {
	var out []etoken
	i := 0
	for i < len(s) {
		c := s[i]
		switch {
		case c == ' ' || c == '\t' || c == '\n':
			i++
		case unicode.IsLetter(rune(c)) || c == '_':
			j := i
			for j < len(s) && (unicode.IsLetter(rune(s[j])) || unicode.IsDigit(rune(s[j])) || s[j] == '_') {
				j++
			}
			out = append(out, etoken{"id", s[i:j]})
			i = j
		case c == '$':
			j := i + 1
			for j < len(s) && (unicode.IsLetter(rune(s[j])) || unicode.IsDigit(rune(s[j])) || s[j] == '_') {
				j++
			}
			out = append(out, etoken{"ghost", s[i+1 : j]})
			i = j
		case unicode.IsDigit(rune(c)):
			j := i
			for j < len(s) && (unicode.IsDigit(rune(s[j])) || s[j] == 'x' || (s[j] >= 'a' && s[j] <= 'f') || (s[j] >= 'A' && s[j] <= 'F') || s[j] == '_') {
				j++
			}
			out = append(out, etoken{"int", strings.ReplaceAll(s[i:j], "_", "")})
			i = j
		case c == '"':
			j := i + 1
			var b strings.Builder
			for j < len(s) && s[j] != '"' {
				if s[j] == '\\' && j+1 < len(s) {
					j++
					switch s[j] {
					case 'n':
						b.WriteByte('\n')
					case 't':
						b.WriteByte('\t')
					default:
						b.WriteByte(s[j])
					}
				} else {
					b.WriteByte(s[j])
				}
				j++
			}
			if j >= len(s) {
				return nil, fmt.Errorf("unterminated string")
			}
			out = append(out, etoken{"str", b.String()})
			i = j + 1
		default:
			ops := []string{"<==>", "==>", "::", ":=", "==", "!=", "<=", ">=", "&&", "||", "<<", ">>"}
			matched := false
			for _, o := range ops {
				if strings.HasPrefix(s[i:], o) {
					out = append(out, etoken{"op", o})
					i += len(o)
					matched = true
					break
				}
			}
			if matched {
				continue
			}
			if strings.ContainsRune("+-*/%<>!()[].,?:&|", rune(c)) {
				out = append(out, etoken{"op", string(c)})
				i++
				continue
			}
			return nil, fmt.Errorf("unexpected character %q in %q", c, s)
		}
	}
	out = append(out, etoken{"eof", ""})
	return out, nil
}

type exprParser struct {
	toks []etoken
	pos  int
}

func parseExpr(s string) (e Expr, err error) {
	toks, err := lexExpr(s)
	if err != nil {
		return nil, err
	}
	p := &exprParser{toks: toks}
	defer func() {
		if r := recover(); r != nil {
			err = fmt.Errorf("parse error in %q: %v", s, r)
		}
	}()
	e = p.parse(0)
	if p.peek().kind != "eof" {
		panic(fmt.Sprintf("unexpected %q", p.peek().val))
	}
	return e, nil
}

func (p *exprParser) peek() etoken { return p.toks[p.pos] }
func (p *exprParser) next() etoken { t := p.toks[p.pos]; p.pos++; return t }
func (p *exprParser) isOp(v string) bool {
	t := p.peek()
	return t.kind == "op" && t.val == v
}
func (p *exprParser) expect(v string) {
	t := p.next()
	if t.val != v {
		panic(fmt.Sprintf("expected %q got %q", v, t.val))
	}
}

var binPrec = map[string]int{
	"<==>": 1, "==>": 2, "||": 4, "&&": 5,
	"==": 6, "!=": 6, "<": 6, "<=": 6, ">": 6, ">=": 6,
	"+": 7, "-": 7, "|": 7, "*": 8, "/": 8, "%": 8, "&": 8, "<<": 8, ">>": 8,
}

func (p *exprParser) parse(minPrec int) Expr {
	// quantifiers bind loosest
	if t := p.peek(); t.kind == "id" && (t.val == "forall" || t.val == "exists") {
		p.next()
		var vars []QVar
		for {
			n := p.next()
			if n.kind != "id" {
				panic("quantifier variable expected")
			}
			ty := p.parseTypeName()
			vars = append(vars, QVar{n.val, ty})
			if p.isOp(",") {
				p.next()
				continue
			}
			break
		}
		p.expect("::")
		body := p.parse(0)
		return EQuant{t.val, vars, body}
	}
	lhs := p.parseUnary()
	for {
		t := p.peek()
		if t.kind != "op" {
			break
		}
		if t.val == "?" && minPrec <= 3 {
			p.next()
			a := p.parse(0)
			p.expect(":")
			b := p.parse(3)
			lhs = ECond{lhs, a, b}
			continue
		}
		prec, ok := binPrec[t.val]
		if !ok || prec < minPrec {
			break
		}
		p.next()
		var rhs Expr
		if t.val == "==>" || t.val == "<==>" {
			rhs = p.parse(prec) // right assoc
		} else {
			rhs = p.parse(prec + 1)
		}
		lhs = EBinary{t.val, lhs, rhs}
	}
	return lhs
}

func (p *exprParser) parseTypeName() string {
	var b strings.Builder
	for {
		t := p.peek()
		if t.kind == "op" && (t.val == "*" || t.val == "[" || t.val == "]" || t.val == ".") {
			b.WriteString(t.val)
			p.next()
			continue
		}
		if t.kind == "id" {
			b.WriteString(t.val)
			p.next()
			if p.isOp(".") || p.isOp("[") {
				continue
			}
			// map[K]V, chan etc. not needed
			break
		}
		break
	}
	return b.String()
}

func (p *exprParser) parseUnary() Expr {
	t := p.peek()
	if t.kind == "op" {
		switch t.val {
		case "!":
			p.next()
			return EUnary{"!", p.parseUnary()}
		case "-":
			p.next()
			return EUnary{"-", p.parseUnary()}
		case "*":
			p.next()
			return EDeref{p.parseUnary()}
		}
	}
	return p.parsePostfix(p.parsePrimary())
}

func (p *exprParser) parsePrimary() Expr {
	t := p.next()
	switch t.kind {
	case "int":
		return EInt{t.val}
	case "str":
		return EStr{t.val}
	case "ghost":
		return EGhost{t.val}
	case "id":
		switch t.val {
		case "true":
			return EBool{true}
		case "false":
			return EBool{false}
		case "nil":
			return ENil{}
		case "old":
			p.expect("(")
			e := p.parse(0)
			p.expect(")")
			return EOld{e}
		}
		if p.isOp("(") {
			p.next()
			var args []Expr
			for !p.isOp(")") {
				args = append(args, p.parse(0))
				if p.isOp(",") {
					p.next()
				}
			}
			p.expect(")")
			return ECall{t.val, args}
		}
		return EIdent{t.val}
	case "op":
		if t.val == "(" {
			e := p.parse(0)
			p.expect(")")
			return e
		}
	}
	panic(fmt.Sprintf("unexpected token %q", t.val))
}

func (p *exprParser) parsePostfix(e Expr) Expr {
	for {
		if p.isOp(".") {
			p.next()
			n := p.next()
			if n.kind == "int" {
				e = ESel{e, n.val}
				continue
			}
			if n.kind != "id" {
				panic("field name expected")
			}
			// method-style spec call x.f(args) => f(x, args) is not supported; fields only
			e = ESel{e, n.val}
			continue
		}
		if p.isOp("[") {
			p.next()
			i := p.parse(0)
			if p.isOp(":=") {
				p.next()
				v := p.parse(0)
				p.expect("]")
				e = EUpdate{e, i, v}
				continue
			}
			p.expect("]")
			e = EIndex{e, i}
			continue
		}
		return e
	}
}

func exprString(e Expr) string {
	switch e := e.(type) {
	case EIdent:
		return e.Name
	case EGhost:
		return "$" + e.Name
	case EInt:
		return e.Val
	case EStr:
		return fmt.Sprintf("%q", e.Val)
	case EBool:
		return fmt.Sprint(e.Val)
	case ENil:
		return "nil"
	case EUnary:
		return e.Op + exprString(e.X)
	case EBinary:
		return "(" + exprString(e.X) + " " + e.Op + " " + exprString(e.Y) + ")"
	case ECall:
		var a []string
		for _, x := range e.Args {
			a = append(a, exprString(x))
		}
		return e.Fun + "(" + strings.Join(a, ", ") + ")"
	case ESel:
		return exprString(e.X) + "." + e.Name
	case EIndex:
		return exprString(e.X) + "[" + exprString(e.I) + "]"
	case EUpdate:
		return exprString(e.X) + "[" + exprString(e.I) + " := " + exprString(e.V) + "]"
	case EQuant:
		var vs []string
		for _, v := range e.Vars {
			vs = append(vs, v.Name+" "+v.Type)
		}
		return e.Kind + " " + strings.Join(vs, ", ") + " :: " + exprString(e.Body)
	case ECond:
		return "(" + exprString(e.C) + " ? " + exprString(e.A) + " : " + exprString(e.B) + ")"
	case EOld:
		return "old(" + exprString(e.X) + ")"
	case EDeref:
		return "*" + exprString(e.X)
	}
	return "?"
}
