package main

import (
	"fmt"
	"go/constant"
	"go/token"
	"go/types"
	"path/filepath"
	"regexp"
	"sort"
	"strings"
)

// Ctx is the SMT context of one function verification: declarations, facts, obligations.
type Ctx struct {
	V        *Verifier
	decls    []string
	declared map[string]bool
	facts    []fact
	obls     []*Obligation
	nfresh   int

	structSort map[string]string // canonical struct type string -> sort name
	structInfo map[string]*structInfo
	heapSort   map[string]string // heap name -> element sort
	strLits    map[string]Term
	boxed      map[string]bool
	notes      []string // unmodelled things encountered (reported in evidence)
	assumed    map[string]bool
	trace      []string
	// curAllocState: the state whose allocation counter bounds pointers inside a struct value
	// whose type invariant is being assumed
	curAllocState *State
	// cells of variables assigned once in their lexical family: content survives havocs
	immCells     []immCell
	privObjs     []privObj // allocations that never leave the function (see private.go)
	assumeProbes []assumeProbe
	shapeDone    map[string]bool
}

type structInfo struct {
	sort   string
	fields []string // field sorts
	st     *types.Struct
	key    string
}

type fact struct {
	s      string
	syms   []string
	always bool
	// derived: the statement of an earlier obligation (sound to use, sound to drop)
	derived bool
}

type Obligation struct {
	Name   string
	Kind   string
	Label  string
	Func   string
	nfacts int
	Reach  Term
	Cond   Term
	Pos    token.Pos
	Desc   string
	// filled after solving
	Res   SolveResult
	Query string
	Known bool
	// replay: for postconditions of free functions over scalars, what is needed to run a solver
	// model on the real code
	replay *replaySpec
}

func newCtx(v *Verifier) *Ctx {
	return &Ctx{V: v, declared: map[string]bool{}, structSort: map[string]string{}, structInfo: map[string]*structInfo{},
		heapSort: map[string]string{}, strLits: map[string]Term{}, boxed: map[string]bool{}, assumed: map[string]bool{}}
}

func (c *Ctx) declare(name, sort string) {
	if c.declared[name] {
		return
	}
	c.declared[name] = true
	c.decls = append(c.decls, fmt.Sprintf("(declare-const %s %s)", name, sort))
}

func (c *Ctx) declareFun(name string, args []string, ret string) {
	if c.declared[name] {
		return
	}
	c.declared[name] = true
	c.decls = append(c.decls, fmt.Sprintf("(declare-fun %s (%s) %s)", name, strings.Join(args, " "), ret))
}

func (c *Ctx) rawDecl(name, text string) {
	if c.declared[name] {
		return
	}
	c.declared[name] = true
	c.decls = append(c.decls, text)
}

func (c *Ctx) fresh(prefix, sort string) Term {
	c.nfresh++
	name := fmt.Sprintf("%s!%d", sanitizeIdent(prefix), c.nfresh)
	c.declare(name, sort)
	return Term{name, sort}
}

func sanitizeIdent(s string) string {
	var b strings.Builder
	for _, r := range s {
		if (r >= 'a' && r <= 'z') || (r >= 'A' && r <= 'Z') || (r >= '0' && r <= '9') || r == '_' {
			b.WriteRune(r)
		} else {
			b.WriteByte('_')
		}
	}
	if b.Len() == 0 {
		return "v"
	}
	return b.String()
}

func (c *Ctx) assume(t Term) {
	if t.S == "true" {
		return
	}
	c.facts = append(c.facts, fact{s: t.S, syms: symbolsOf(t.S, c.declared)})
}

func (c *Ctx) assumeAlways(t Term) {
	if t.S == "true" {
		return
	}
	c.facts = append(c.facts, fact{s: t.S, syms: symbolsOf(t.S, c.declared), always: true})
}

func (c *Ctx) note(format string, a ...any) {
	s := fmt.Sprintf(format, a...)
	for _, n := range c.notes {
		if n == s {
			return
		}
	}
	c.notes = append(c.notes, s)
}

// oblige records an obligation "reach ==> cond".
func (c *Ctx) oblige(name, kind, label string, reach, cond Term, pos token.Pos, desc string) *Obligation {
	if cond.S == "true" || reach.S == "false" {
		// trivially discharged; still counted so that counts are stable? No: skip, it
		// carries no proof content.
		return nil
	}
	if pos.IsValid() && c.V != nil && c.V.P != nil {
		p := c.V.P.Fset.Position(pos)
		desc = fmt.Sprintf("%s [%s:%d]", desc, filepath.Base(p.Filename), p.Line)
	}
	o := &Obligation{Name: name, Kind: kind, Label: label, nfacts: len(c.facts), Reach: reach, Cond: cond, Pos: pos, Desc: desc}
	c.obls = append(c.obls, o)
	// later code may assume it — except a listed known finding: it is expected to be FALSE on this
	// tree, and assuming it would make everything after it in the function vacuously true
	if c.V != nil && c.V.isKnownName(name) {
		return o
	}
	imp := implies(reach, cond)
	c.assume(imp)
	if n := len(c.facts); n > 0 && c.facts[n-1].s == imp.S {
		c.facts[n-1].derived = true
	}
	return o
}

// ---- sorts -----------------------------------------------------------------------

type Verifier struct {
	P         *Program
	CS        *ContractSet
	fieldIDs  map[string]int
	fieldName map[int]string
	typeTags  map[string]int
	tagType   map[int]types.Type
	globals   map[string]int
	Opts      Options
	// candidate invariants that failed and are therefore not used (Houdini)
	disabledAuto map[string]bool
	knownNames   map[string]bool
}

type Options struct {
	TimeoutS   int
	Tier       string
	KeepSMT    bool
	Verbose    bool
	Solvers    []string
	InlineMax  int
	OnlyFuncs  []string
	OnlyOblig  string
	WorkDir    string
	NoVacuity  bool
	TwoSolvers bool
}

func newVerifier(p *Program, cs *ContractSet, o Options) *Verifier {
	return &Verifier{P: p, CS: cs, fieldIDs: map[string]int{}, fieldName: map[int]string{}, typeTags: map[string]int{},
		tagType: map[int]types.Type{}, globals: map[string]int{}, Opts: o, disabledAuto: map[string]bool{}, knownNames: knownFindingNames()}
}

func (v *Verifier) fieldID(st types.Type, idx int) int {
	key := fmt.Sprintf("%s#%d", structKey(st), idx)
	if id, ok := v.fieldIDs[key]; ok {
		return id
	}
	id := len(v.fieldIDs) + 1
	v.fieldIDs[key] = id
	name := "?"
	if s, ok := st.Underlying().(*types.Struct); ok && idx < s.NumFields() {
		name = s.Field(idx).Name()
	}
	v.fieldName[id] = shortType(st) + "." + name
	return id
}

func shortType(t types.Type) string {
	return types.TypeString(t, func(p *types.Package) string { return p.Name() })
}

func structKey(t types.Type) string {
	if n, ok := t.(*types.Named); ok {
		// generic instances share layout by field index; key by origin to stay stable
		o := n.Origin()
		if o.Obj().Pkg() != nil {
			return o.Obj().Pkg().Path() + "." + o.Obj().Name()
		}
		return o.Obj().Name()
	}
	if a, ok := t.(*types.Alias); ok {
		return structKey(types.Unalias(a))
	}
	return types.TypeString(t, nil)
}

func (v *Verifier) typeTag(t types.Type) int {
	key := types.TypeString(t, nil)
	if id, ok := v.typeTags[key]; ok {
		return id
	}
	id := len(v.typeTags) + 1
	v.typeTags[key] = id
	v.tagType[id] = t
	return id
}

func (v *Verifier) globalID(name string) int {
	if id, ok := v.globals[name]; ok {
		return id
	}
	id := -(len(v.globals) + 1)
	v.globals[name] = id
	return id
}

// sortOf maps a Go type to its SMT sort, declaring struct datatypes on demand.
func (c *Ctx) sortOf(t types.Type) string {
	t = types.Unalias(t)
	switch u := t.Underlying().(type) {
	case *types.Basic:
		switch {
		case u.Info()&types.IsInteger != 0:
			return SInt
		case u.Info()&types.IsBoolean != 0:
			return SBool
		case u.Info()&types.IsString != 0:
			return SStr
		case u.Info()&(types.IsFloat|types.IsComplex) != 0:
			return SF64
		case u.Kind() == types.UnsafePointer:
			return SPtr
		case u.Kind() == types.UntypedNil:
			return SPtr
		}
		return SInt
	case *types.Pointer, *types.Map, *types.Chan:
		return SPtr
	case *types.Slice:
		return SSlice
	case *types.Interface:
		if _, ok := t.(*types.TypeParam); ok {
			return c.typeParamSort(t.(*types.TypeParam))
		}
		return SIface
	case *types.Signature:
		return SFn
	case *types.Struct:
		return c.structSortOf(t)
	case *types.Array:
		es := c.sortOf(u.Elem())
		return fmt.Sprintf("(Array Int %s)", es)
	case *types.Tuple:
		return "Tuple"
	}
	if tp, ok := t.(*types.TypeParam); ok {
		return c.typeParamSort(tp)
	}
	return SInt
}

func (c *Ctx) typeParamSort(tp *types.TypeParam) string {
	// A type parameter constrained by a method/any interface is modelled as an opaque boxed
	// value (the Iface sort): values of it only flow and are receivers of interface calls.
	if it, ok := tp.Constraint().Underlying().(*types.Interface); ok && !hasTypeSet(it) {
		return SIface
	}
	name := "TP_" + sanitizeIdent(tp.Obj().Name())
	if !c.declared[name] {
		c.declared[name] = true
		c.decls = append(c.decls, fmt.Sprintf("(declare-sort %s 0)", name))
	}
	return name
}

func (c *Ctx) structSortOf(t types.Type) string {
	key := structKey(t)
	if s, ok := c.structSort[key]; ok {
		return s
	}
	st := t.Underlying().(*types.Struct)
	if st.NumFields() == 0 {
		c.structSort[key] = SUnit
		c.structInfo[key] = &structInfo{sort: SUnit, st: st, key: key}
		return SUnit
	}
	name := fmt.Sprintf("S%d_%s", len(c.structSort), sanitizeIdent(lastSeg(key)))
	c.structSort[key] = name
	info := &structInfo{sort: name, st: st, key: key}
	c.structInfo[key] = info
	var fs []string
	for i := 0; i < st.NumFields(); i++ {
		fsrt := c.sortOf(st.Field(i).Type())
		info.fields = append(info.fields, fsrt)
		fs = append(fs, fmt.Sprintf("(%s_f%d %s)", name, i, fsrt))
	}
	c.declared[name] = true
	c.declared["mk"+name] = true
	c.decls = append(c.decls, fmt.Sprintf("(declare-datatypes ((%s 0)) (((mk%s %s))))", name, name, strings.Join(fs, " ")))
	return name
}

func lastSeg(s string) string {
	if i := strings.LastIndexAny(s, "./"); i >= 0 {
		return s[i+1:]
	}
	return s
}

func (c *Ctx) structField(v Term, t types.Type, i int) Term {
	key := structKey(t)
	c.structSortOf(t)
	info := c.structInfo[key]
	return app(info.fields[i], fmt.Sprintf("%s_f%d", info.sort, i), v)
}

func (c *Ctx) mkStruct(t types.Type, fs []Term) Term {
	s := c.structSortOf(t)
	if s == SUnit {
		return Term{"unit", SUnit}
	}
	return app(s, "mk"+s, fs...)
}

// zero value of a type
func (c *Ctx) zero(t types.Type) Term {
	t = types.Unalias(t)
	srt := c.sortOf(t)
	switch srt {
	case SInt:
		return tInt(0)
	case SBool:
		return tFalse
	case SStr:
		return Term{"str_empty", SStr}
	case SPtr:
		return tNilPtr
	case SSlice:
		return Term{"nilslice", SSlice}
	case SIface:
		return Term{"niliface", SIface}
	case SFn:
		return Term{"fn_nil", SFn}
	case SF64:
		return Term{"f64_zero", SF64}
	case SUnit:
		return Term{"unit", SUnit}
	}
	switch u := t.Underlying().(type) {
	case *types.Struct:
		var fs []Term
		for i := 0; i < u.NumFields(); i++ {
			fs = append(fs, c.zero(u.Field(i).Type()))
		}
		return c.mkStruct(t, fs)
	case *types.Array:
		z := c.zero(u.Elem())
		return Term{fmt.Sprintf("((as const %s) %s)", srt, constValue(z.S)), srt}
	}
	// type parameter: a declared zero constant per sort
	zn := "zero_" + sanitizeIdent(srt)
	c.declare(zn, srt)
	return Term{zn, srt}
}

// ---- heaps -----------------------------------------------------------------------

func heapName(sort string) string {
	return "H_" + sanitizeIdent(sort)
}

// State is the symbolic store: heap arrays per leaf sort, ghost variables, allocation counter.
type State struct {
	heaps  map[string]Term
	ghosts map[string]Term
	alloc  Term
}

func (s *State) clone() *State {
	n := &State{heaps: map[string]Term{}, ghosts: map[string]Term{}, alloc: s.alloc}
	for k, v := range s.heaps {
		n.heaps[k] = v
	}
	for k, v := range s.ghosts {
		n.ghosts[k] = v
	}
	return n
}

func (c *Ctx) heap(st *State, sort string) Term {
	hn := heapName(sort)
	if h, ok := st.heaps[hn]; ok {
		return h
	}
	// entry heap of this sort: shared by all states of the context
	c.heapSort[hn] = sort
	name := hn + "@0"
	hs := fmt.Sprintf("(Array Ptr %s)", sort)
	if !c.declared[name] {
		c.declare(name, hs)
		c.wfHeap(Term{name, hs}, sort, Term{"alloc@0", SInt})
	}
	h := Term{name, hs}
	st.heaps[hn] = h
	return h
}

// wfHeap adds the heap well-formedness fact for a pointer heap that is not derived from another
// one by stores (entry heap, havocked heap): every stored pointer refers to an allocated object.
func (c *Ctx) wfHeap(h Term, sort string, alloc Term) {
	if sort != SPtr {
		return
	}
	// every cell, also of objects that do not exist yet (their content is junk that nothing else
	// constrains: append defines a NEW pointer heap instead of claiming the content of a new
	// array was there before, and make/new only claim nil)
	c.assume(Term{fmt.Sprintf("(forall ((p Ptr)) (! (< (rootid (select %s p)) %s) :pattern ((select %s p))))", h.S, alloc.S, h.S), SBool})
}

func (c *Ctx) entryHeap(sort string) Term {
	hn := heapName(sort)
	c.heapSort[hn] = sort
	return c.entryHeapByName(hn)
}

func (c *Ctx) setHeap(st *State, sort string, h Term) {
	hn := heapName(sort)
	c.heapSort[hn] = sort
	// name the new heap to keep terms small
	n := c.fresh(hn, h.Sort)
	c.assumeDef(eq(n, h))
	st.heaps[hn] = n
}

// assumeDef adds a definitional equality (never contradictory: fresh symbol on the left).
func (c *Ctx) assumeDef(t Term) { c.assume(t) }

func isLeafSort(s string) bool {
	return !strings.HasPrefix(s, "S") || s == SStr || s == SSlice
}

// load reads a value of Go type t at pointer p.
func (c *Ctx) load(st *State, p Term, t types.Type) Term {
	t = types.Unalias(t)
	switch u := t.Underlying().(type) {
	case *types.Struct:
		if u.NumFields() == 0 {
			return Term{"unit", SUnit}
		}
		var fs []Term
		for i := 0; i < u.NumFields(); i++ {
			fs = append(fs, c.load(st, c.fieldPtr(p, t, i), u.Field(i).Type()))
		}
		return c.mkStruct(t, fs)
	case *types.Array:
		srt := c.sortOf(t)
		n := u.Len()
		if n <= 32 {
			arr := Term{fmt.Sprintf("((as const %s) %s)", srt, constValue(c.zero(u.Elem()).S)), srt}
			for i := int64(0); i < n; i++ {
				arr = sto(arr, tInt(i), c.load(st, elemPtr(p, tInt(i)), u.Elem()))
			}
			return arr
		}
		c.note("load of large array %s left unconstrained", shortType(t))
		return c.fresh("bigarr", srt)
	}
	srt := c.sortOf(t)
	v := sel(c.heap(st, srt), p, srt)
	return v
}

// store writes value v of Go type t at pointer p.
func (c *Ctx) store(st *State, p Term, t types.Type, v Term) {
	t = types.Unalias(t)
	switch u := t.Underlying().(type) {
	case *types.Struct:
		for i := 0; i < u.NumFields(); i++ {
			c.store(st, c.fieldPtr(p, t, i), u.Field(i).Type(), c.structField(v, t, i))
		}
		return
	case *types.Array:
		n := u.Len()
		if n <= 32 {
			es := c.sortOf(u.Elem())
			for i := int64(0); i < n; i++ {
				c.store(st, elemPtr(p, tInt(i)), u.Elem(), sel(v, tInt(i), es))
			}
			return
		}
		c.note("store of large array %s not modelled (cells left stale)", shortType(t))
		return
	}
	srt := c.sortOf(t)
	h := c.heap(st, srt)
	c.setHeap(st, srt, sto(h, p, v))
}

func (c *Ctx) fieldPtr(p Term, structT types.Type, i int) Term {
	return app(SPtr, "pfld", p, tInt(int64(c.V.fieldID(structT, i))))
}

func elemPtr(p Term, i Term) Term { return app(SPtr, "pelem", p, i) }

func sliceBase(s Term) Term { return app(SPtr, "sbase", s) }
func sliceOff(s Term) Term  { return app(SInt, "soff", s) }
func sliceLen(s Term) Term  { return app(SInt, "slen", s) }
func sliceCap(s Term) Term  { return app(SInt, "scap", s) }
func mkSlice(b, o, l, cp Term) Term {
	return app(SSlice, "mkslice", b, o, l, cp)
}
func sliceElemPtr(s Term, i Term) Term {
	return elemPtr(sliceBase(s), app(SInt, "+", sliceOff(s), i))
}

// alloc returns a fresh object pointer.
func (c *Ctx) allocObj(st *State) Term {
	p := app(SPtr, "pobj", st.alloc)
	n := c.fresh("alloc", SInt)
	c.assumeDef(eq(n, app(SInt, "+", st.alloc, tInt(1))))
	st.alloc = n
	return p
}

// leafCount estimates how many leaf cells a type has (for eager zeroing decisions).
func leafCount(t types.Type) int64 {
	t = types.Unalias(t)
	switch u := t.Underlying().(type) {
	case *types.Struct:
		var n int64
		for i := 0; i < u.NumFields(); i++ {
			n += leafCount(u.Field(i).Type())
		}
		return n
	case *types.Array:
		return u.Len() * leafCount(u.Elem())
	}
	return 1
}

// ---- integers --------------------------------------------------------------------

type intInfo struct {
	bits   int
	signed bool
}

func intInfoOf(t types.Type) (intInfo, bool) {
	if t == nil {
		return intInfo{}, false
	}
	b, ok := types.Unalias(t).Underlying().(*types.Basic)
	if !ok || b.Info()&types.IsInteger == 0 {
		return intInfo{}, false
	}
	switch b.Kind() {
	case types.Int8:
		return intInfo{8, true}, true
	case types.Int16:
		return intInfo{16, true}, true
	case types.Int32:
		return intInfo{32, true}, true
	case types.Int64, types.Int, types.UntypedInt, types.UntypedRune:
		return intInfo{64, true}, true
	case types.Uint8:
		return intInfo{8, false}, true
	case types.Uint16:
		return intInfo{16, false}, true
	case types.Uint32:
		return intInfo{32, false}, true
	case types.Uint64, types.Uint, types.Uintptr:
		return intInfo{64, false}, true
	}
	return intInfo{64, true}, true
}

func pow2(n int) string {
	switch n {
	case 7:
		return "128"
	case 8:
		return "256"
	case 15:
		return "32768"
	case 16:
		return "65536"
	case 31:
		return "2147483648"
	case 32:
		return "4294967296"
	case 63:
		return "9223372036854775808"
	case 64:
		return "18446744073709551616"
	}
	panic("pow2")
}

func (ii intInfo) rangeOf() (lo, hi string) {
	if ii.signed {
		return "(- " + pow2(ii.bits-1) + ")", "(- " + pow2(ii.bits-1) + " 1)"
	}
	return "0", "(- " + pow2(ii.bits) + " 1)"
}

func (ii intInfo) wrapFn() string {
	if ii.signed {
		return fmt.Sprintf("wrap_s%d", ii.bits)
	}
	return fmt.Sprintf("wrap_u%d", ii.bits)
}

// inRange returns the range predicate of a Go integer type for term v.
func inRange(v Term, t types.Type) Term {
	ii, ok := intInfoOf(t)
	if !ok {
		return tTrue
	}
	lo, hi := ii.rangeOf()
	return Term{fmt.Sprintf("(and (<= %s %s) (<= %s %s))", lo, v.S, v.S, hi), SBool}
}

// assumeTypeInv adds the type invariant of a freshly introduced value (integer range,
// slice header sanity).
func (c *Ctx) assumeTypeInv(v Term, t types.Type, st *State) {
	if st != nil {
		c.curAllocState = st
		defer func() { c.curAllocState = nil }()
	} else if c.curAllocState != nil {
		st = c.curAllocState
	}
	switch v.Sort {
	case SInt:
		c.assume(inRange(v, t))
	case SSlice:
		c.assume(Term{fmt.Sprintf("(and (<= 0 (soff %[1]s)) (<= 0 (slen %[1]s)) (<= (slen %[1]s) (scap %[1]s)) (<= (scap %[1]s) 9223372036854775807) (=> (= (sbase %[1]s) pnil) (= (scap %[1]s) 0)))", v.S), SBool})
		// machine limit (listed in every evidence file): the Go runtime cannot allocate more
		// than 2^48 bytes, so a slice whose elements have a size holds fewer than 2^48 of them
		if t != nil {
			if sl, ok := types.Unalias(t).Underlying().(*types.Slice); ok && hasSize(sl.Elem()) {
				c.assume(Term{fmt.Sprintf("(<= (scap %s) 281474976710656)", v.S), SBool})
			}
		}
		if st != nil {
			c.assume(Term{fmt.Sprintf("(< (rootid (sbase %s)) %s)", v.S, st.alloc.S), SBool})
		}
	case SPtr:
		if st != nil {
			c.assume(Term{fmt.Sprintf("(< (rootid %s) %s)", v.S, st.alloc.S), SBool})
		}
	case SIface:
		// the nil interface is unique
		c.assume(Term{fmt.Sprintf("(=> (= (itag %s) 0) (= %s niliface))", v.S, v.S), SBool})
	default:
		// struct values: invariants of their pointer / slice / integer components (two levels)
		if t == nil {
			return
		}
		if st, ok := types.Unalias(t).Underlying().(*types.Struct); ok && st.NumFields() <= 12 {
			c.structTypeInv(v, t, st, st0(st != nil), 0)
		}
	}
}

func st0(bool) *State { return nil }

// hasSize: the type certainly occupies at least one byte (everything except empty structs and
// arrays of them / of length zero; type parameters are not assumed to have a size)
func hasSize(t types.Type) bool {
	switch u := types.Unalias(t).Underlying().(type) {
	case *types.Basic, *types.Pointer, *types.Slice, *types.Map, *types.Chan, *types.Signature, *types.Interface:
		_, isTP := types.Unalias(t).(*types.TypeParam)
		return !isTP
	case *types.Struct:
		for i := 0; i < u.NumFields(); i++ {
			if hasSize(u.Field(i).Type()) {
				return true
			}
		}
		return false
	case *types.Array:
		return u.Len() > 0 && hasSize(u.Elem())
	}
	return false
}

func (c *Ctx) structTypeInv(v Term, t types.Type, st *types.Struct, _ *State, depth int) {
	for i := 0; i < st.NumFields(); i++ {
		ft := st.Field(i).Type()
		fv := c.structField(v, t, i)
		switch fv.Sort {
		case SPtr, SSlice, SInt, SIface:
			c.assumeTypeInv(fv, ft, c.curAllocState)
		default:
			if inner, ok := types.Unalias(ft).Underlying().(*types.Struct); ok && depth < 1 && inner.NumFields() <= 12 {
				c.structTypeInv(fv, ft, inner, nil, depth+1)
			}
		}
	}
}

func (c *Ctx) strLit(s string) Term {
	if s == "" {
		return Term{"str_empty", SStr}
	}
	if t, ok := c.strLits[s]; ok {
		return t
	}
	name := fmt.Sprintf("lit!%d_%s", len(c.strLits), sanitizeIdent(truncateStr(s, 20)))
	c.declare(name, SStr)
	t := Term{name, SStr}
	c.strLits[s] = t
	c.declareFun("str_id", []string{SStr}, SInt)
	c.assumeAlways(Term{fmt.Sprintf("(and (= (str_len %s) %d) (= (str_id %s) %d))", name, len(s), name, len(c.strLits)), SBool})
	c.assumeAlways(Term{"(= (str_id str_empty) 0)", SBool})
	if len(s) <= 24 {
		var parts []string
		for i := 0; i < len(s); i++ {
			parts = append(parts, fmt.Sprintf("(= (str_at %s %d) %d)", name, i, s[i]))
		}
		c.assume(Term{"(and " + strings.Join(parts, " ") + " true)", SBool})
	}
	return t
}

func truncateStr(s string, n int) string {
	if len(s) > n {
		return s[:n]
	}
	return s
}

// constTerm converts a Go constant of type t.
func (c *Ctx) constTerm(val constant.Value, t types.Type) Term {
	srt := c.sortOf(t)
	if val == nil {
		return c.zero(t)
	}
	switch srt {
	case SInt:
		if val.Kind() == constant.Int {
			return tBigInt(val.ExactString())
		}
		if i, ok := constant.Int64Val(constant.ToInt(val)); ok {
			return tInt(i)
		}
	case SBool:
		return tBool(constant.BoolVal(val))
	case SStr:
		if val.Kind() == constant.String {
			return c.strLit(constant.StringVal(val))
		}
	case SF64:
		name := "f64c_" + sanitizeIdent(val.ExactString())
		c.declare(name, SF64)
		return Term{name, SF64}
	}
	return c.zero(t)
}

// box/unbox for interface payloads
var boundVarRe = regexp.MustCompile(`\bq_[A-Za-z0-9_]+\b`)

func (c *Ctx) box(v Term) Term {
	fn := "box_" + sanitizeIdent(v.Sort)
	un := "unbox_" + sanitizeIdent(v.Sort)
	c.declareFun(fn, []string{v.Sort}, SInt)
	c.declareFun(un, []string{SInt}, v.Sort)
	b := app(SInt, fn, v)
	if boundVarRe.MatchString(v.S) {
		// the boxed term mentions a bound variable of a contract quantifier: an instance of the
		// inverse law cannot be stated outside the binder; state the law itself, once per sort
		key := "boxlaw:" + v.Sort
		if !c.declared[key] {
			c.declared[key] = true
			c.assumeAlways(Term{fmt.Sprintf("(forall ((x %s)) (! (= (%s (%s x)) x) :pattern ((%s x))))", v.Sort, un, fn, fn), SBool})
		}
		return b
	}
	c.assume(eq(app(v.Sort, un, b), v))
	return b
}

func (c *Ctx) unbox(ref Term, sort string) Term {
	fn := "box_" + sanitizeIdent(sort)
	un := "unbox_" + sanitizeIdent(sort)
	c.declareFun(fn, []string{sort}, SInt)
	c.declareFun(un, []string{SInt}, sort)
	return app(sort, un, ref)
}

func sortedKeys[V any](m map[string]V) []string {
	var ks []string
	for k := range m {
		ks = append(ks, k)
	}
	sort.Strings(ks)
	return ks
}

// hasTypeSet reports whether an interface restricts its type set to specific (core) types.
func hasTypeSet(it *types.Interface) bool {
	for i := 0; i < it.NumEmbeddeds(); i++ {
		switch e := it.EmbeddedType(i).(type) {
		case *types.Union:
			return true
		default:
			if !types.IsInterface(e) {
				return true
			}
			if u, ok := e.Underlying().(*types.Interface); ok && hasTypeSet(u) {
				return true
			}
		}
	}
	return false
}

func knownFindingNames() map[string]bool {
	out := map[string]bool{}
	for _, k := range loadKnownFindings() {
		if k.Status == "known" {
			out[k.Obligation] = true
		}
	}
	return out
}

// constValue rewrites the defined nil constants into constructor terms: cvc5 accepts only values
// as the element of a constant array.
func constValue(s string) string {
	s = strings.ReplaceAll(s, "niliface", "(mkiface 0 0)")
	s = strings.ReplaceAll(s, "nilslice", "(mkslice pnil 0 0 0)")
	return s
}

func (v *Verifier) isKnownName(name string) bool {
	if v.knownNames[name] {
		return true
	}
	for k := range v.knownNames {
		if strings.HasPrefix(name, k+".") {
			return true
		}
	}
	return false
}

type assumeProbe struct {
	nBefore, nAfter int
	reach, src      string
}
