package main

import (
	"fmt"
	"go/types"
	"os"
	"path/filepath"
	"regexp"
	"runtime/debug"
	"sort"
	"strings"
	"sync"
	"time"

	"golang.org/x/tools/go/ssa"
)

// FuncResult is the outcome of verifying one function under contract.
type FuncResult struct {
	Key      string
	Obls     []*Obligation
	Err      string // engine error (unsupported construct, unbindable contract)
	Notes    []string
	Assumed  []string
	Vacuity  []string // vacuity problems found
	VacuityN int      // vacuity probes run
	GenS     float64
	Trusted  bool
	ctx      *Ctx
	probes   []vacProbe
}

type vacProbe struct {
	name, text, problem string
	// pairBefore: when set, the probe only counts if THIS text (the path before the assumption) is
	// satisfiable — an infeasible path makes the assumption irrelevant, not contradictory
	pairBefore string
}

func (v *Verifier) verifyFunc(fn *ssa.Function, fc *FuncContract) (res *FuncResult) {
	t0 := time.Now()
	res = &FuncResult{Key: funcKey(fn)}
	c := newCtx(v)
	res.ctx = c
	defer func() {
		res.GenS = time.Since(t0).Seconds()
		if r := recover(); r != nil {
			switch e := r.(type) {
			case unsupported:
				res.Err = e.Error()
			case evalError:
				res.Err = e.Error()
			default:
				res.Err = fmt.Sprintf("engine panic: %v\n%s", r, debug.Stack())
			}
		}
		res.Notes = c.notes
		res.Assumed = sortedKeys(c.assumed)
	}()
	fr := &Frame{c: c, fn: fn, fc: fc, vals: map[ssa.Value]Term{}, tuples: map[ssa.Value][]Term{},
		closures: map[ssa.Value]*closureVal{}, counters: map[string]int{}, callOrd: map[string]int{}}
	st := &State{heaps: map[string]Term{}, ghosts: map[string]Term{}}
	c.declare("alloc@0", SInt)
	st.alloc = Term{"alloc@0", SInt}
	c.assumeAlways(Term{"(> alloc@0 0)", SBool})
	fr.entry = st
	fr.st = st.clone()
	fr.reach = tTrue
	for _, p := range fn.Params {
		t := c.fresh("p_"+p.Name(), c.sortOf(p.Type()))
		c.assumeTypeInv(t, p.Type(), st)
		fr.vals[p] = t
		fr.params = append(fr.params, t)
	}
	for _, fv := range fn.FreeVars {
		t := c.fresh("fv_"+fv.Name(), SPtr)
		c.assume(not(eq(t, tNilPtr)))
		// a captured variable is its own allocation (go/ssa: the value of a free variable is an
		// Alloc), never a field or element of another object, and distinct from the other captures
		c.assume(Term{"((_ is pobj) " + t.S + ")", SBool})
		for _, o := range fr.freeVars {
			c.assume(not(eq(t, o)))
		}
		c.assumeTypeInv(t, fv.Type(), st)
		fr.freeVars = append(fr.freeVars, t)
		fr.registerImmCell(fv, t)
	}
	for _, ig := range fc.Ignore {
		c.assumed["obligations not generated in contract of "+shortKey(fc.Key)+": ignore "+ig] = true
	}
	fr.recovers = hasRecover(fn)
	isInit := fn.Name() == "init" && fn.Synthetic != ""
	fr.isInit = isInit
	// global invariants (established by package initialisation, never written afterwards)
	if !isInit {
		for _, gi := range v.CS.GInvs {
			p := v.P.ByPath[gi.Pkg]
			if p == nil {
				continue
			}
			ge := &Env{c: c, pkg: p.Types, vars: map[string]Binding{}, st: st}
			t, err := ge.evalBool(gi.Cl.E)
			if err != nil {
				panic(evalError{fmt.Sprintf("global invariant %s: %v", gi.Src, err)})
			}
			c.assume(t)
			c.assumed["global invariant (proved on "+shortKey(gi.Pkg)+".init, globals never stored elsewhere): "+gi.Cl.Src] = true
		}
	}
	if isInit && fn.Pkg != nil {
		// the initialiser runs once: its guard is false on entry
		if g, ok := fn.Pkg.Members["init$guard"].(*ssa.Global); ok {
			gp := app(SPtr, "pobj", tInt(int64(v.globalID(globalKey(g)))))
			c.assume(not(c.load(st, gp, types.Typ[types.Bool])))
		}
	}
	// axioms of the contract files whose package is loaded
	for _, ax := range v.CS.Axioms {
		var apkg *types.Package
		if ax.Pkg != "" {
			p := v.P.ByPath[ax.Pkg]
			if p == nil {
				if ax.Pkg != "std" {
					continue
				}
			} else {
				apkg = p.Types
			}
		}
		ae := &Env{c: c, pkg: apkg, vars: map[string]Binding{}, st: st}
		t, err := ae.evalBool(ax.E)
		if err != nil {
			panic(evalError{fmt.Sprintf("axiom %s (%s): %v", ax.Name, ax.Src, err)})
		}
		c.assume(t)
		c.assumed["axiom "+ax.Name+": "+exprString(ax.E)] = true
	}
	// preconditions
	env := fr.entryEnv()
	var reqTerms []string
	for _, r := range fc.Requires {
		t, err := env.evalBool(r.E)
		if err != nil {
			panic(evalError{fmt.Sprintf("requires of %s: %v", shortKey(fc.Key), err)})
		}
		c.assume(t)
		reqTerms = append(reqTerms, t.S)
	}
	nEntryFacts := len(c.facts)
	for _, g := range fc.GhostAts {
		if g.When == "entry" {
			e := fr.baseEnv(fr.st)
			c.setGhost(fr.st, g.Var, e.eval(g.E).T)
		}
	}
	fr.run()
	// exit: merge return points
	var exitReach Term = tFalse
	if len(fr.rets) > 0 {
		results := fr.mergeReturns(fr, fn.Signature.Results())
		var rs []Term
		for _, r := range fr.rets {
			rs = append(rs, r.reach)
		}
		exitReach = or(rs...)
		fr.reach = exitReach
		fr.curBlock = nil
		for _, g := range fc.GhostAts {
			if g.When == "return" {
				e := fr.exitEnv(results)
				c.setGhost(fr.st, g.Var, e.eval(g.E).T)
			}
		}
		envX := fr.exitEnv(results)
		nBefore := len(c.obls)
		for _, e := range fc.Ensures {
			t, err := envX.evalBool(e.E)
			if err != nil {
				panic(evalError{fmt.Sprintf("ensures of %s: %v", shortKey(fc.Key), err)})
			}
			fr.oblige("ensures", e.Label, t, fn.Pos(), "postcondition: "+e.Src)
		}
		// for the model replay of scalar functions: the terms of parameters and results
		if rs := scalarReplaySpec(fn, fr.params, results, v.P); rs != nil {
			rs.ReqTerms = reqTerms
			if os.Getenv("GVC_REPLAY_DEBUG") != "" {
				fmt.Fprintln(os.Stderr, "model-replay eligible:", shortKey(fc.Key))
			}
			for _, o := range c.obls[nBefore:] {
				o.replay = rs
			}
		}
		if isInit && fn.Pkg != nil {
			for _, gi := range v.CS.GInvs {
				if gi.Pkg != fn.Pkg.Pkg.Path() {
					continue
				}
				ge := &Env{c: c, pkg: fn.Pkg.Pkg, vars: map[string]Binding{}, st: fr.st}
				t, err := ge.evalBool(gi.Cl.E)
				if err != nil {
					panic(evalError{fmt.Sprintf("global invariant %s: %v", gi.Src, err)})
				}
				fr.oblige("init.global", gi.Cl.Label, t, fn.Pos(), "package initialisation establishes: "+gi.Cl.Src)
			}
		}
		fr.frameObligations(fc)
	} else if len(fc.Ensures) > 0 {
		res.Vacuity = append(res.Vacuity, "function has no normal return but has postconditions")
	}
	// every anchored clause must have bound to a call: an anchor that silently matches nothing
	// would drop its obligation or ghost update
	for _, g := range fc.GhostAts {
		if g.Callee != "" && fr.callOrd["fired:"+g.Src] == 0 {
			panic(evalError{fmt.Sprintf("ghost-at anchor did not match any call: %s (%s)", g.Callee, g.Src)})
		}
	}
	for _, cs := range fc.CallSpecs {
		if fr.callOrd["fired:"+cs.Src] == 0 {
			panic(evalError{fmt.Sprintf("call-site clause did not match any call: at call[%d] %s %s (%s)", cs.Ord, cs.Callee, cs.Kind, cs.Src)})
		}
	}
	for _, o := range c.obls {
		o.Func = res.Key
	}
	res.Obls = c.obls
	// vacuity probes (sat expected): preconditions consistent; exit reachable
	if !v.Opts.NoVacuity {
		res.probes = append(res.probes, vacProbe{name: "vac.pre", text: c.buildSatProbe(nEntryFacts, ""), problem: "preconditions and axioms are contradictory"})
		if len(fr.rets) > 0 {
			res.probes = append(res.probes, vacProbe{name: "vac.exit", text: c.buildSatProbe(len(c.facts), exitReach.S), problem: "no normal return is reachable under the assumptions (all postconditions vacuous)"})
		}
		for i, ap := range c.assumeProbes {
			res.probes = append(res.probes, vacProbe{name: fmt.Sprintf("vac.assume%d", i), text: c.buildSatProbe(ap.nAfter, ap.reach),
				problem: "explicit assumption contradicts the path it is attached to (everything after it is vacuous): " + ap.src, pairBefore: c.buildSatProbe(ap.nBefore, ap.reach)})
		}
	}
	return res
}

func hasRecover(fn *ssa.Function) bool {
	for _, b := range fn.Blocks {
		for _, ins := range b.Instrs {
			d, ok := ins.(*ssa.Defer)
			if !ok {
				continue
			}
			var callee *ssa.Function
			switch x := d.Call.Value.(type) {
			case *ssa.MakeClosure:
				callee, _ = x.Fn.(*ssa.Function)
			case *ssa.Function:
				callee = x
			}
			if callee == nil {
				continue
			}
			for _, cb := range callee.Blocks {
				for _, ci := range cb.Instrs {
					if call, ok := ci.(*ssa.Call); ok {
						if b, ok := call.Call.Value.(*ssa.Builtin); ok && b.Name() == "recover" {
							return true
						}
					}
				}
			}
		}
	}
	return false
}

func (fr *Frame) exitEnv(results []Term) *Env {
	env := fr.baseEnv(fr.st)
	rt := fr.fn.Signature.Results()
	for i, r := range results {
		env.result = append(env.result, Binding{r, rt.At(i).Type()})
		if n := rt.At(i).Name(); n != "" && n != "_" {
			env.vars[n] = Binding{r, rt.At(i).Type()}
		}
	}
	return env
}

// frameObligations: what the function leaves unchanged (everything allocated at entry that is
// not covered by its modifies clause).
func (fr *Frame) frameObligations(fc *FuncContract) {
	c := fr.c
	if fc.ModAll {
		return
	}
	envPre := fr.entryEnv()
	m := fr.preciseModSet(fc, envPre)
	for _, hn := range sortedKeys(fr.st.heaps) {
		cur := fr.st.heaps[hn]
		ent := c.entryHeapByName(hn)
		if cur.S == ent.S || m.heapAll[hn] {
			continue
		}
		p := c.fresh("frame_p", SPtr)
		var mods []string
		if strings.HasPrefix(hn, "H_") {
			if fs := m.fields[hn]; len(fs) > 0 {
				for id := range fs {
					mods = append(mods, fmt.Sprintf("(and ((_ is pfld) %s) (= (pfid %s) %d))", p.S, p.S, id))
				}
			}
			if m.elems[hn] {
				mods = append(mods, fmt.Sprintf("((_ is pelem) %s)", p.S))
			}
			for _, r := range m.regions[hn] {
				mods = append(mods, strings.ReplaceAll(r, " p)", " "+p.S+")"))
			}
		}
		for _, l := range m.locs[hn] {
			mods = append(mods, fmt.Sprintf("(= %s %s)", p.S, l.S))
		}
		sort.Strings(mods)
		es := arrayElemSort(cur.Sort)
		cond := Term{fmt.Sprintf("(=> (and (< (rootid %s) alloc@0) (not (or %s false))) (= (select %s %s) (select %s %s)))",
			p.S, strings.Join(mods, " "), cur.S, p.S, ent.S, p.S), SBool}
		_ = es
		fr.oblige("frame."+hn, "", cond, fr.fn.Pos(), "cells outside the modifies clause are unchanged ("+hn+")")
	}
	for _, g := range sortedKeys(fr.st.ghosts) {
		if m.ghosts[g] || g == "held" && len(fc.Holds) > 0 {
			continue
		}
		if g == "sends" {
			// the builtin counter of channel sends executed by the function itself: an event
			// log, not state a modifies clause has to list
			continue
		}
		changedByAt := false
		for _, ga := range fc.GhostAts {
			if ga.Var == g {
				changedByAt = true
			}
		}
		if changedByAt {
			continue
		}
		cur := fr.st.ghosts[g]
		ent := c.ghostEntry(g)
		if cur.S == ent.S {
			continue
		}
		fr.oblige("frame.$"+g, "", eq(cur, ent), fr.fn.Pos(), "ghost $"+g+" unchanged (not in modifies)")
	}
}

// ---- queries ---------------------------------------------------------------------------------

func (c *Ctx) buildQuery(o *Obligation) string { return c.buildQueryOpt(o, false) }

// buildQueryOpt: with lean set, the quantified statements of earlier obligations are left out
// (dropping assumptions is sound; it helps when they send the solvers into instantiation loops).
func (c *Ctx) buildQueryOpt(o *Obligation, lean bool) string { return c.buildQueryMode(o, lean, false) }

// buildQueryMode: with qf set, every quantified assumption is left out (sound: assumptions are
// only dropped); many obligations need none of them and the solvers then answer at once.
func (c *Ctx) buildQueryMode(o *Obligation, lean, qf bool) string {
	goal := "(and " + o.Reach.S + " (not " + o.Cond.S + "))"
	goalSyms := symbolsOf(goal, c.declared)
	facts := c.facts[:o.nfacts]
	fs := make([]string, len(facts))
	syms := make([][]string, len(facts))
	always := make([]bool, len(facts))
	for i, f := range facts {
		fs[i] = f.s
		syms[i] = f.syms
		always[i] = f.always
	}
	keep := sliceFacts(fs, syms, goalSyms, always)
	var b strings.Builder
	b.WriteString(prelude)
	for _, d := range c.decls {
		b.WriteString(d)
		b.WriteByte('\n')
	}
	for _, i := range keep {
		if lean && facts[i].derived && (strings.Contains(fs[i], "(forall ") || strings.Contains(fs[i], "(exists ")) {
			continue
		}
		if qf && !facts[i].always && (strings.Contains(fs[i], "(forall ") || strings.Contains(fs[i], "(exists ")) {
			continue
		}
		b.WriteString("(assert ")
		b.WriteString(fs[i])
		b.WriteString(")\n")
	}
	b.WriteString("(assert ")
	b.WriteString(goal)
	b.WriteString(")\n(check-sat)\n(get-model)\n")
	return b.String()
}

func (c *Ctx) buildSatProbe(nfacts int, extra string) string {
	var b strings.Builder
	b.WriteString(prelude)
	for _, d := range c.decls {
		b.WriteString(d)
		b.WriteByte('\n')
	}
	for _, f := range c.facts[:nfacts] {
		b.WriteString("(assert ")
		b.WriteString(f.s)
		b.WriteString(")\n")
	}
	if extra != "" {
		b.WriteString("(assert " + extra + ")\n")
	}
	b.WriteString("(check-sat)\n")
	return b.String()
}

// solveAll discharges the obligations of a set of function results in parallel.
func (v *Verifier) solveAll(results []*FuncResult) {
	type job struct {
		c *Ctx
		o *Obligation
	}
	var jobs []job
	for _, r := range results {
		for _, o := range r.Obls {
			if v.Opts.OnlyOblig != "" && !strings.Contains(o.Name, v.Opts.OnlyOblig) {
				continue
			}
			jobs = append(jobs, job{r.ctx, o})
		}
	}
	var wg sync.WaitGroup
	sem := make(chan struct{}, 14)
	var mu sync.Mutex
	for _, r := range results {
		for _, p := range r.probes {
			wg.Add(1)
			sem <- struct{}{}
			go func(r *FuncResult, p vacProbe) {
				defer wg.Done()
				defer func() { <-sem }()
				q := &Query{Name: sanitize(shortKey(r.Key)) + "." + p.name, Text: p.text}
				sr := solve(q, v.Opts.WorkDir, 5, v.Opts.Solvers)
				bad := sr.Verdict == "unsat"
				if bad && p.pairBefore != "" {
					qb := &Query{Name: sanitize(shortKey(r.Key)) + "." + p.name + ".before", Text: p.pairBefore}
					bad = solve(qb, v.Opts.WorkDir, 5, v.Opts.Solvers).Verdict == "sat"
				}
				mu.Lock()
				r.VacuityN++
				if bad {
					r.Vacuity = append(r.Vacuity, p.problem)
				}
				mu.Unlock()
			}(r, p)
		}
	}
	for _, j := range jobs {
		wg.Add(1)
		sem <- struct{}{}
		go func(j job) {
			defer wg.Done()
			defer func() { <-sem }()
			text := j.c.buildQuery(j.o)
			j.o.Query = text
			q := &Query{Name: j.o.Name, Text: text}
			to := v.Opts.TimeoutS
			if v.knownNames[j.o.Name] && to > 6 {
				to = 6 // listed findings are expected to fail: do not spend the full limit on them
			}
			// stage 1: the full query with a short limit (most obligations answer in well under a
			// second); then the reduced variants, which are sound to accept when unsat; the full
			// query gets the whole limit last
			first := to
			if first > 6 {
				first = 6
			}
			j.o.Res = solve(q, v.Opts.WorkDir, first, v.Opts.Solvers)
			if j.o.Res.Verdict == "unknown" && j.o.Res.TimeS < float64(first)/2 {
				// the solvers gave up or failed to start well before the limit: try once more
				r2 := solve(q, v.Opts.WorkDir, first, v.Opts.Solvers)
				r2.TimeS += j.o.Res.TimeS
				j.o.Res = r2
			}
			if j.o.Res.Verdict == "unknown" && !v.knownNames[j.o.Name] {
				if qf := j.c.buildQueryMode(j.o, false, true); qf != text {
					q2 := &Query{Name: j.o.Name + ".qf", Text: qf}
					if r2 := solve(q2, v.Opts.WorkDir, 5, v.Opts.Solvers); r2.Verdict == "unsat" {
						r2.TimeS += j.o.Res.TimeS
						r2.Solver += " (without quantified assumptions)"
						j.o.Res = r2
						j.o.Query = qf
					}
				}
			}
			if j.o.Res.Verdict == "unknown" && !v.knownNames[j.o.Name] {
				if lean := j.c.buildQueryOpt(j.o, true); lean != text {
					q2 := &Query{Name: j.o.Name + ".lean", Text: lean}
					if r2 := solve(q2, v.Opts.WorkDir, to, v.Opts.Solvers); r2.Verdict == "unsat" {
						r2.TimeS += j.o.Res.TimeS
						r2.Solver += " (without earlier quantified obligations)"
						j.o.Res = r2
						j.o.Query = lean
					}
				}
			}
			if j.o.Res.Verdict == "unknown" && first < to {
				r2 := solve(q, v.Opts.WorkDir, to, v.Opts.Solvers)
				r2.TimeS += j.o.Res.TimeS
				j.o.Res = r2
				j.o.Query = text
			}
			if v.Opts.TwoSolvers && j.o.Res.Verdict == "unsat" {
				// thorough: a second, different solver must agree
				var others []string
				for _, sc := range solverCmds {
					if sc.name != j.o.Res.Solver {
						others = append(others, sc.name)
					}
				}
				r2 := solve(q, v.Opts.WorkDir, v.Opts.TimeoutS, others)
				if r2.Verdict == "sat" {
					j.o.Res.Verdict = "sat"
					j.o.Res.Model = r2.Model
					j.o.Res.Solver = r2.Solver + " (disagrees with " + j.o.Res.Solver + ")"
				} else if r2.Verdict == "unsat" {
					j.o.Res.Solver += "+" + r2.Solver
				}
			}
		}(j)
	}
	wg.Wait()
}

// bindContracts checks that every contract in scope names something that exists.
func (v *Verifier) unboundContracts(inPkgs map[string]bool) []string {
	var out []string
	for key, fc := range v.CS.Funcs {
		if fc.Trusted {
			continue
		}
		pkg := v.pkgOfKey(key)
		if pkg == nil || !inPkgs[pkg.Path()] {
			continue
		}
		if _, ok := v.P.Funcs[key]; !ok {
			if v.lookupSignature(key) == nil {
				out = append(out, fmt.Sprintf("%s (%s:%d)", key, fc.File, fc.Line))
			}
		}
	}
	sort.Strings(out)
	return out
}

func mkWorkDir() string {
	d, err := os.MkdirTemp("", "gvc-")
	if err != nil {
		d = filepath.Join(os.TempDir(), "gvc")
		_ = os.MkdirAll(d, 0o755)
	}
	return d
}

var _ = types.Typ

// globalsIn collects the package-level variables a contract expression mentions.
func globalsIn(e Expr, pkg *types.Package, out map[string]bool) {
	switch x := e.(type) {
	case EIdent:
		if v, ok := pkg.Scope().Lookup(x.Name).(*types.Var); ok {
			out[v.Pkg().Path()+"."+v.Name()] = true
		}
	case EUnary:
		globalsIn(x.X, pkg, out)
	case EBinary:
		globalsIn(x.X, pkg, out)
		globalsIn(x.Y, pkg, out)
	case ECall:
		for _, a := range x.Args {
			globalsIn(a, pkg, out)
		}
	case ESel:
		globalsIn(x.X, pkg, out)
	case EIndex:
		globalsIn(x.X, pkg, out)
		globalsIn(x.I, pkg, out)
	case EQuant:
		globalsIn(x.Body, pkg, out)
	case ECond:
		globalsIn(x.C, pkg, out)
		globalsIn(x.A, pkg, out)
		globalsIn(x.B, pkg, out)
	case EOld:
		globalsIn(x.X, pkg, out)
	case EDeref:
		globalsIn(x.X, pkg, out)
	}
}

// structuralGlobalStores: a global under a global invariant may be written only by its
// package's init function. Returns violations.
func (v *Verifier) structuralGlobalStores() []string {
	want := map[string]bool{}
	for _, gi := range v.CS.GInvs {
		p := v.P.ByPath[gi.Pkg]
		if p == nil {
			continue
		}
		globalsIn(gi.Cl.E, p.Types, want)
	}
	if len(want) == 0 {
		return nil
	}
	var out []string
	for key, fn := range v.P.Funcs {
		if fn.Name() == "init" && fn.Synthetic != "" {
			continue
		}
		var scan func(f *ssa.Function)
		scan = func(f *ssa.Function) {
			for _, b := range f.Blocks {
				for _, ins := range b.Instrs {
					for _, op := range ins.Operands(nil) {
						g, ok := (*op).(*ssa.Global)
						if !ok || !want[globalKey(g)] {
							continue
						}
						// the only allowed use is a direct load
						if u, ok := ins.(*ssa.UnOp); ok && u.X == ssa.Value(g) {
							continue
						}
						if _, ok := ins.(*ssa.DebugRef); ok {
							continue
						}
						out = append(out, fmt.Sprintf("%s uses global %s other than by loading it (%s)", shortKey(key), shortKey(globalKey(g)), ins))
					}
				}
			}
		}
		scan(fn)
	}
	sort.Strings(out)
	return out
}

var autoKeyRe = regexp.MustCompile(`^auto\[([^\]]*)\]`)

// verifyWithCandidates runs the Houdini loop for automatically generated candidate invariants:
// candidates whose own obligations do not discharge are dropped and the VCs regenerated, so
// that no undischarged candidate is ever assumed.
func (v *Verifier) verifyWithCandidates(fn *ssa.Function, fc *FuncContract) *FuncResult {
	for round := 0; ; round++ {
		res := v.verifyFunc(fn, fc)
		if res.Err != "" || round >= 4 {
			return res
		}
		var autos []*Obligation
		for _, o := range res.Obls {
			if strings.Contains(o.Kind, ".auto.") {
				autos = append(autos, o)
			}
		}
		if len(autos) == 0 {
			return res
		}
		dropped := false
		var wg sync.WaitGroup
		var mu sync.Mutex
		for _, o := range autos {
			wg.Add(1)
			go func(o *Obligation) {
				defer wg.Done()
				text := res.ctx.buildQuery(o)
				r := solve(&Query{Name: o.Name + ".cand", Text: text}, v.Opts.WorkDir, 4, v.Opts.Solvers)
				if r.Verdict != "unsat" {
					if m := autoKeyRe.FindStringSubmatch(o.Desc); m != nil {
						mu.Lock()
						v.disabledAuto[m[1]] = true
						dropped = true
						if v.Opts.Verbose {
							fmt.Printf("  candidate dropped (%s, %s): %s\n", r.Verdict, o.Name, m[1])
						}
						mu.Unlock()
					}
				}
			}(o)
		}
		wg.Wait()
		if !dropped {
			return res
		}
	}
}

// verifyLemmas checks the `lemma` declarations of the contract files of the given packages:
// closed formulas over spec functions, proved once (no program state involved).
func (v *Verifier) verifyLemmas(pkgs map[string]bool) *FuncResult {
	var lem []*Axiom
	for _, l := range v.CS.Lemmas {
		if pkgs[l.Pkg] {
			lem = append(lem, l)
		}
	}
	if len(lem) == 0 {
		return nil
	}
	res := &FuncResult{Key: "lemmas"}
	c := newCtx(v)
	res.ctx = c
	defer func() {
		if r := recover(); r != nil {
			res.Err = fmt.Sprintf("%v", r)
		}
	}()
	st := &State{heaps: map[string]Term{}, ghosts: map[string]Term{}}
	c.declare("alloc@0", SInt)
	st.alloc = Term{"alloc@0", SInt}
	for _, ax := range v.CS.Axioms {
		var apkg *types.Package
		if p := v.P.ByPath[ax.Pkg]; p != nil {
			apkg = p.Types
		} else if ax.Pkg != "std" && ax.Pkg != "" {
			continue
		}
		ae := &Env{c: c, pkg: apkg, vars: map[string]Binding{}, st: st}
		if t, err := ae.evalBool(ax.E); err == nil {
			c.assume(t)
		}
	}
	for _, l := range lem {
		var lpkg *types.Package
		if p := v.P.ByPath[l.Pkg]; p != nil {
			lpkg = p.Types
		}
		le := &Env{c: c, pkg: lpkg, vars: map[string]Binding{}, st: st}
		t, err := le.evalBool(l.E)
		if err != nil {
			panic(evalError{fmt.Sprintf("lemma %s (%s): %v", l.Name, l.Src, err)})
		}
		name := fmt.Sprintf("%s/lemma:%s", shortKey(l.Pkg), l.Name)
		o := &Obligation{Name: name, Kind: "lemma", Label: l.Name, nfacts: len(c.facts), Reach: tTrue, Cond: t, Desc: "lemma: " + exprString(l.E), Func: "lemmas"}
		c.obls = append(c.obls, o)
	}
	res.Obls = c.obls
	return res
}
