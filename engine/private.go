package main

import (
	"fmt"
	"go/types"
	"strings"

	"golang.org/x/tools/go/ssa"
)

// Private allocations. A map or slice made by the function whose SSA value is only ever indexed,
// updated, ranged over, measured or returned — never passed to a call, stored into memory, captured
// by a closure, sub-sliced, appended to or merged through a phi — cannot be reached by any callee.
// Its content therefore survives the havoc that models a callee's effects (a callee with
// `modifies *`, an unmodelled call). It does NOT survive the havoc at a loop head: the loop body
// itself may write it, and the loop invariant has to say what holds.
type privObj struct {
	ptr   Term // the map reference, or the base of the slice's backing array
	mt    *types.Map
	et    types.Type // element type of a slice
	reach Term       // path condition under which this object was allocated
}

func isPrivateAlloc(v ssa.Value) bool {
	refs := v.Referrers()
	if refs == nil {
		return false
	}
	for _, r := range *refs {
		switch x := r.(type) {
		case *ssa.DebugRef, *ssa.Return:
		case *ssa.MapUpdate:
			if x.Map != v || x.Key == v || x.Value == v {
				return false
			}
		case *ssa.Lookup:
			if x.X != v || x.Index == v {
				return false
			}
		case *ssa.Range:
		case *ssa.Index:
			if x.X != v {
				return false
			}
		case *ssa.IndexAddr:
			if x.X != v {
				return false
			}
			ir := x.Referrers()
			if ir == nil {
				return false
			}
			for _, u := range *ir {
				switch y := u.(type) {
				case *ssa.DebugRef:
				case *ssa.Store:
					if y.Addr != x || y.Val == x {
						return false
					}
				case *ssa.UnOp:
					if y.Op.String() != "*" {
						return false
					}
				default:
					return false
				}
			}
		case *ssa.MakeInterface:
			mr := x.Referrers()
			if mr == nil {
				return false
			}
			for _, u := range *mr {
				switch u.(type) {
				case *ssa.DebugRef, *ssa.Return:
				default:
					return false
				}
			}
		case *ssa.Call:
			b, ok := x.Call.Value.(*ssa.Builtin)
			if !ok || (b.Name() != "len" && b.Name() != "cap") {
				return false
			}
		default:
			return false
		}
	}
	return true
}

func (fr *Frame) registerPrivate(v ssa.Value, ptr Term) {
	if !isPrivateAlloc(v) {
		return
	}
	po := privObj{ptr: ptr, reach: fr.reach}
	switch t := v.Type().Underlying().(type) {
	case *types.Map:
		po.mt = t
	case *types.Slice:
		po.et = t.Elem()
	default:
		return
	}
	fr.c.privObjs = append(fr.c.privObjs, po)
}

// havocCallee is havoc for the effects of a call: private allocations keep their content.
func (c *Ctx) havocCallee(st *State, m *ModSet, why string) {
	if len(c.privObjs) == 0 {
		c.havoc(st, m, why)
		return
	}
	before := map[string]Term{}
	for hn, h := range st.heaps {
		before[hn] = h
	}
	c.havoc(st, m, why)
	same := func(hn string, cellNew, cellOld func(h Term) string, quant bool, reach Term) {
		old, ok := before[hn]
		if !ok {
			return // the heap had not been touched before: its entry value was replaced; nothing known to keep
		}
		now := st.heaps[hn]
		if now.S == old.S {
			return
		}
		body := fmt.Sprintf("(= %s %s)", cellNew(now), cellOld(old))
		if quant {
			body = fmt.Sprintf("(forall ((i Int)) (! %s :pattern (%s)))", body, cellNew(now))
		}
		if reach.S != "true" {
			body = fmt.Sprintf("(=> %s %s)", reach.S, body)
		}
		c.assume(Term{body, SBool})
	}
	for _, po := range c.privObjs {
		if po.mt != nil {
			dn, _ := c.mapDomName(po.mt)
			vn, _ := c.mapValName(po.mt)
			for _, hn := range []string{dn, vn, "ML"} {
				sel := func(h Term) string { return fmt.Sprintf("(select %s %s)", h.S, po.ptr.S) }
				same(hn, sel, sel, false, po.reach)
			}
			continue
		}
		for _, lp := range c.leafPaths(po.et) {
			srt := c.sortOf(lp.t)
			hn := heapName(srt)
			cell := lp.ptr(Term{"(pelem " + po.ptr.S + " i)", SPtr})
			sel := func(h Term) string { return fmt.Sprintf("(select %s %s)", h.S, cell.S) }
			same(hn, sel, sel, true, po.reach)
		}
	}
}

var _ = strings.Contains
