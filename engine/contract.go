package main

import (
	"fmt"
	"os"
	"regexp"
	"strconv"
	"strings"
)

type Clause struct {
	Label string
	E     Expr
	Src   string
}

type LoopContract struct {
	// Entry: assertions checked once, when the loop is reached (before anything is havocked);
	// unlike an invariant they are neither assumed in nor required of the body
	Entry      []Clause
	Invariants []Clause
	Decreases  []Clause
	Modifies   []Clause // extra havoc targets (normally inferred)
	// LocalOnly: the loop writes heap cells only of objects allocated by this function
	// activation (checked at every write); cells that existed at function entry are framed.
	LocalOnly bool
}

// GhostAt is a ghost update anchored at the k-th call of a callee (or at entry/return).
type GhostAt struct {
	Callee string // substring of callee key, "" with Where=entry|return
	Ord    int    // 0-based ordinal among matching calls in source order; -1 = every
	When   string // before | after
	Var    string
	E      Expr
	Src    string
}

type CallSpec struct {
	Callee string
	Ord    int
	Kind   string // "assert" (extra obligation before call), "iter" (iterator invariant)
	Label  string
	E      Expr
	Src    string
}

type FuncContract struct {
	Key        string
	ParamNames []string // optional explicit names (receiver first as given)
	Requires   []Clause
	Ensures    []Clause
	Modifies   []Clause
	ModAll     bool
	Loops      map[int]*LoopContract
	PanicsWhen []Clause
	Trusted    bool // assumed, body (if any) not verified
	Pure       bool // no effect on modelled state; result unconstrained unless ensures
	Inline     bool
	NoInline   bool
	Fresh      bool // result is freshly allocated
	GhostAts   []GhostAt
	CallSpecs  []CallSpec
	Asserts    []Clause
	File       string
	Line       int
	Mode       string
	Recover    bool     // function absorbs panics by deferred recover
	Ignore     []string // obligation kinds not claimed, with reason (documented)
	Unroll     int
	Notes      []string
	Atomic     bool
	NoAuto     bool
	Holds      []string // monitors held on entry (requires held)
	DeclPkg    string   // package of the contract file that declares it (name resolution scope)
	Decreases  []Clause // termination measure for recursive calls
}

type GhostDecl struct {
	Name string
	Type string
	Src  string
	Pkg  string
	// Local: a ghost LOCAL variable of the functions that use it — every invocation has its own
	// instance, so a callee (including a recursive call) never changes the caller's
	Local bool
}

type SpecFunc struct {
	Name   string
	Params []QVar
	Ret    string
	Body   Expr // nil => uninterpreted
	Src    string
	Pkg    string
	Macro  bool // expanded at each use (may read the heap of the state it is used in)
}

type Axiom struct {
	Name string
	E    Expr
	Src  string
	Pkg  string
}

type Monitor struct {
	TypeKey  string // pkg.T
	MuField  string
	Protects []string
	Inv      []Clause
	Src      string
	Pkg      string
}

type PureDecl struct {
	Pattern string
	Src     string
}

type GlobalInv struct {
	Pkg string
	Cl  Clause
	Src string
}

type ContractSet struct {
	// LocalAssumes: `assume func` declarations made in a repository package's contract file for
	// functions of OTHER packages. They are assumptions of that package only: they govern call
	// sites inside the declaring package and never clash with the callee's own contract.
	LocalAssumes map[string]map[string]*FuncContract
	GInvs        []*GlobalInv
	Funcs        map[string]*FuncContract
	Ghosts       map[string]*GhostDecl
	Specs        map[string]*SpecFunc
	Axioms       []*Axiom
	Monitors     []*Monitor
	Pures        []PureDecl
	Order        []string
	Lemmas       []*Axiom
}

func newContractSet() *ContractSet {
	return &ContractSet{Funcs: map[string]*FuncContract{}, Ghosts: map[string]*GhostDecl{}, Specs: map[string]*SpecFunc{}}
}

var funcHdrRe = regexp.MustCompile(`^(assume\s+)?func\s+(.+?)\s*$`)
var loopRe = regexp.MustCompile(`^loop\[(\d+)\]\s+(invariant|decreases|modifies|entry)\s+(.*)$`)
var labelRe = regexp.MustCompile(`^\[([A-Za-z0-9_.:-]+)\]\s*(.*)$`)
var ghostAtRe = regexp.MustCompile(`^ghost\s+at\s+(entry|return|call\[(\d+|\*)\]\s+(\S+)\s+(before|after))\s*:\s*\$([A-Za-z0-9_]+)\s*=\s*(.*)$`)
var retSpecRe = regexp.MustCompile(`^at\s+return\[(\d+|\*)\]\s+assert\s+(.*)$`)
var callSpecRe = regexp.MustCompile(`^at\s+call\[(\d+|\*)\]\s+(\S+)\s+(assert|iter|assume|assume_before|releases)\s+(.*)$`)

// parseContractFile reads //@ lines. pkgPath is the default package for relative names.
func (cs *ContractSet) parseContractFile(file string, pkgPath string) error {
	data, err := os.ReadFile(file)
	if err != nil {
		return err
	}
	return cs.parseContractText(string(data), file, pkgPath)
}

func (cs *ContractSet) parseContractText(text, file, pkgPath string) error {
	imports := map[string]string{}
	var cur *FuncContract
	// gather logical lines: a //@ line starting with whitespace-continued "..." joins previous
	type lline struct {
		s    string
		line int
	}
	var lines []lline
	for i, raw := range strings.Split(text, "\n") {
		t := strings.TrimSpace(raw)
		if !strings.HasPrefix(t, "//@") {
			continue
		}
		body := strings.TrimPrefix(t, "//@")
		if strings.HasPrefix(strings.TrimSpace(body), "#") {
			continue // comment inside contract file
		}
		if strings.HasPrefix(strings.TrimSpace(body), "...") && len(lines) > 0 {
			lines[len(lines)-1].s += " " + strings.TrimSpace(strings.TrimPrefix(strings.TrimSpace(body), "..."))
			continue
		}
		if strings.TrimSpace(body) == "" {
			continue
		}
		lines = append(lines, lline{strings.TrimSpace(body), i + 1})
	}
	resolve := func(name string) string { return resolveFuncName(name, pkgPath, imports) }
	for _, ll := range lines {
		s := ll.s
		src := fmt.Sprintf("%s:%d", file, ll.line)
		fail := func(err error) error { return fmt.Errorf("%s: %v (in %q)", src, err, s) }
		switch {
		case strings.HasPrefix(s, "package "):
			pkgPath = strings.Trim(strings.TrimSpace(strings.TrimPrefix(s, "package ")), `"`)
			cur = nil
		case strings.HasPrefix(s, "import "):
			f := strings.Fields(strings.TrimPrefix(s, "import "))
			if len(f) != 2 {
				return fail(fmt.Errorf("import alias \"path\""))
			}
			imports[f[0]] = strings.Trim(f[1], `"`)
		case strings.HasPrefix(s, "ghost $") || strings.HasPrefix(s, "ghost local $"):
			local := strings.HasPrefix(s, "ghost local $")
			f := strings.SplitN(strings.TrimPrefix(strings.TrimPrefix(s, "ghost local $"), "ghost $"), " ", 2)
			if len(f) != 2 {
				return fail(fmt.Errorf("ghost $name type"))
			}
			cs.Ghosts[f[0]] = &GhostDecl{Name: f[0], Type: resolveTypeAliases(strings.TrimSpace(f[1]), pkgPath, imports), Src: src, Pkg: pkgPath, Local: local}
			cur = nil
		case strings.HasPrefix(s, "spec func ") || strings.HasPrefix(s, "spec macro "):
			isMacro := strings.HasPrefix(s, "spec macro ")
			sf, err := parseSpecFunc(strings.TrimPrefix(strings.TrimPrefix(s, "spec func "), "spec macro "), pkgPath, imports)
			if err != nil {
				return fail(err)
			}
			sf.Macro = isMacro
			if isMacro && sf.Body == nil {
				return fail(fmt.Errorf("spec macro needs a body"))
			}
			sf.Src = src
			sf.Pkg = pkgPath
			if old, dup := cs.Specs[sf.Name]; dup {
				return fail(fmt.Errorf("spec %s already declared at %s (spec names are global)", sf.Name, old.Src))
			}
			cs.Specs[sf.Name] = sf
			cur = nil
		case strings.HasPrefix(s, "axiom ") || strings.HasPrefix(s, "lemma "):
			isLemma := strings.HasPrefix(s, "lemma ")
			rest := s[6:]
			i := strings.Index(rest, ":")
			if i < 0 {
				return fail(fmt.Errorf("axiom name: expr"))
			}
			e, err := parseExpr(rest[i+1:])
			if err != nil {
				return fail(err)
			}
			ax := &Axiom{Name: strings.TrimSpace(rest[:i]), E: e, Src: src, Pkg: pkgPath}
			if isLemma {
				cs.Lemmas = append(cs.Lemmas, ax)
			} else {
				cs.Axioms = append(cs.Axioms, ax)
			}
			cur = nil
		case strings.HasPrefix(s, "invariant global "):
			r := strings.TrimPrefix(s, "invariant global ")
			label := ""
			if m := labelRe.FindStringSubmatch(r); m != nil {
				label, r = m[1], m[2]
			}
			e, err := parseExpr(r)
			if err != nil {
				return fail(err)
			}
			cs.GInvs = append(cs.GInvs, &GlobalInv{Pkg: pkgPath, Cl: Clause{label, e, r}, Src: src})
			cur = nil
		case strings.HasPrefix(s, "pure "):
			for _, p := range strings.Fields(strings.TrimPrefix(s, "pure ")) {
				cs.Pures = append(cs.Pures, PureDecl{p, src})
			}
			cur = nil
		case strings.HasPrefix(s, "monitor "):
			m, err := parseMonitor(strings.TrimPrefix(s, "monitor "), pkgPath, imports)
			if err != nil {
				return fail(err)
			}
			m.Src = src
			m.Pkg = pkgPath
			cs.Monitors = append(cs.Monitors, m)
			cur = nil
		case funcHdrRe.MatchString(s) && (strings.HasPrefix(s, "func ") || strings.HasPrefix(s, "assume func ")):
			m := funcHdrRe.FindStringSubmatch(s)
			name := m[2]
			var pnames []string
			if i := strings.LastIndex(name, "("); i > 0 && strings.HasSuffix(name, ")") && !strings.HasPrefix(name[i:], "(*") && i > strings.LastIndex(name, ").") {
				// trailing (a, b, c) parameter name list
				inner := name[i+1 : len(name)-1]
				isNames := true
				for _, p := range strings.Split(inner, ",") {
					p = strings.TrimSpace(p)
					if p == "" {
						continue
					}
					if strings.ContainsAny(p, ".*[]") {
						isNames = false
					}
					pnames = append(pnames, p)
				}
				if isNames {
					name = strings.TrimSpace(name[:i])
				} else {
					pnames = nil
				}
			}
			key := resolve(name)
			cur = &FuncContract{Key: key, Loops: map[int]*LoopContract{}, Trusted: m[1] != "", File: file, Line: ll.line, ParamNames: pnames, DeclPkg: pkgPath}
			if cur.Trusted && strings.HasSuffix(file, "zz_verif_contracts.go") && !keyInPackage(key, pkgPath) {
				if cs.LocalAssumes == nil {
					cs.LocalAssumes = map[string]map[string]*FuncContract{}
				}
				if cs.LocalAssumes[pkgPath] == nil {
					cs.LocalAssumes[pkgPath] = map[string]*FuncContract{}
				}
				if old, dup := cs.LocalAssumes[pkgPath][key]; dup {
					return fail(fmt.Errorf("duplicate local assumption for %s (first at %s:%d)", key, old.File, old.Line))
				}
				cs.LocalAssumes[pkgPath][key] = cur
				cs.Order = append(cs.Order, key)
				continue
			}
			if old, ok := cs.Funcs[key]; ok {
				return fail(fmt.Errorf("duplicate contract for %s (first at %s:%d)", key, old.File, old.Line))
			}
			cs.Funcs[key] = cur
			cs.Order = append(cs.Order, key)
		default:
			if cur == nil {
				return fail(fmt.Errorf("clause outside a func contract"))
			}
			if err := parseClause(cur, s, src, resolve); err != nil {
				return fail(err)
			}
		}
	}
	return nil
}

func parseClause(fc *FuncContract, s, src string, resolve func(string) string) error {
	kw := s
	rest := ""
	if i := strings.IndexAny(s, " \t"); i > 0 {
		kw, rest = s[:i], strings.TrimSpace(s[i+1:])
	}
	mk := func(r string) (Clause, error) {
		label := ""
		if m := labelRe.FindStringSubmatch(r); m != nil {
			label, r = m[1], m[2]
		}
		e, err := parseExpr(r)
		if err != nil {
			return Clause{}, err
		}
		return Clause{label, e, r}, nil
	}
	switch kw {
	case "requires":
		c, err := mk(rest)
		if err != nil {
			return err
		}
		fc.Requires = append(fc.Requires, c)
	case "ensures":
		c, err := mk(rest)
		if err != nil {
			return err
		}
		fc.Ensures = append(fc.Ensures, c)
	case "decreases":
		c, err := mk(rest)
		if err != nil {
			return err
		}
		fc.Decreases = append(fc.Decreases, c)
	case "assert":
		c, err := mk(rest)
		if err != nil {
			return err
		}
		fc.Asserts = append(fc.Asserts, c)
	case "panics_when":
		c, err := mk(rest)
		if err != nil {
			return err
		}
		fc.PanicsWhen = append(fc.PanicsWhen, c)
	case "modifies":
		if rest == "*" || rest == "everything" {
			fc.ModAll = true
			return nil
		}
		for _, part := range splitTop(rest, ',') {
			c, err := mk(strings.TrimSpace(part))
			if err != nil {
				return err
			}
			fc.Modifies = append(fc.Modifies, c)
		}
	case "pure":
		fc.Pure = true
	case "inline":
		fc.Inline = true
	case "noinline":
		fc.NoInline = true
	case "trusted":
		fc.Trusted = true
	case "fresh":
		fc.Fresh = true
	case "recovers":
		fc.Recover = true
	case "atomic":
		fc.Atomic = true
	case "noauto":
		// every loop of the function carries its own invariants: no candidate invariants are guessed
		fc.NoAuto = true
	case "mode":
		fc.Mode = rest
	case "unroll":
		n, err := strconv.Atoi(rest)
		if err != nil {
			return err
		}
		fc.Unroll = n
	case "note":
		fc.Notes = append(fc.Notes, rest)
	case "holds":
		fc.Holds = append(fc.Holds, strings.Fields(rest)...)
	case "ignore":
		fc.Ignore = append(fc.Ignore, rest)
	case "ghost":
		m := ghostAtRe.FindStringSubmatch(s)
		if m == nil {
			return fmt.Errorf("bad ghost-at clause")
		}
		e, err := parseExpr(m[6])
		if err != nil {
			return err
		}
		g := GhostAt{Var: m[5], E: e, Src: src}
		switch {
		case m[1] == "entry" || m[1] == "return":
			g.When = m[1]
		default:
			g.Callee = m[3]
			g.When = m[4]
			if m[2] == "*" {
				g.Ord = -1
			} else {
				g.Ord, _ = strconv.Atoi(m[2])
			}
		}
		fc.GhostAts = append(fc.GhostAts, g)
	case "at":
		if rm := retSpecRe.FindStringSubmatch(s); rm != nil {
			c, err := mk(rm[2])
			if err != nil {
				return err
			}
			cs := CallSpec{Callee: "return", Kind: "retassert", Label: c.Label, E: c.E, Src: c.Src + " @" + src}
			if rm[1] == "*" {
				cs.Ord = -1
			} else {
				cs.Ord, _ = strconv.Atoi(rm[1])
			}
			fc.CallSpecs = append(fc.CallSpecs, cs)
			return nil
		}
		m := callSpecRe.FindStringSubmatch(s)
		if m == nil {
			return fmt.Errorf("bad at-call clause")
		}
		c, err := mk(m[4])
		if err != nil {
			return err
		}
		cs := CallSpec{Callee: m[2], Kind: m[3], Label: c.Label, E: c.E, Src: c.Src + " @" + src}
		if m[1] == "*" {
			cs.Ord = -1
		} else {
			cs.Ord, _ = strconv.Atoi(m[1])
		}
		fc.CallSpecs = append(fc.CallSpecs, cs)
	default:
		if m := loopRe.FindStringSubmatch(s); m != nil {
			k, _ := strconv.Atoi(m[1])
			lc := fc.Loops[k]
			if lc == nil {
				lc = &LoopContract{}
				fc.Loops[k] = lc
			}
			switch m[2] {
			case "invariant":
				c, err := mk(m[3])
				if err != nil {
					return err
				}
				lc.Invariants = append(lc.Invariants, c)
			case "entry":
				c, err := mk(strings.TrimSpace(strings.TrimPrefix(strings.TrimSpace(m[3]), "assert")))
				if err != nil {
					return err
				}
				lc.Entry = append(lc.Entry, c)
			case "decreases":
				c, err := mk(m[3])
				if err != nil {
					return err
				}
				lc.Decreases = append(lc.Decreases, c)
			case "modifies":
				if strings.TrimSpace(m[3]) == "local" {
					lc.LocalOnly = true
					return nil
				}
				for _, part := range splitTop(m[3], ',') {
					c, err := mk(strings.TrimSpace(part))
					if err != nil {
						return err
					}
					lc.Modifies = append(lc.Modifies, c)
				}
			}
			return nil
		}
		return fmt.Errorf("unknown clause %q", kw)
	}
	return nil
}

func splitTop(s string, sep byte) []string {
	var out []string
	depth := 0
	last := 0
	for i := 0; i < len(s); i++ {
		switch s[i] {
		case '(', '[':
			depth++
		case ')', ']':
			depth--
		default:
			if s[i] == sep && depth == 0 {
				out = append(out, s[last:i])
				last = i + 1
			}
		}
	}
	out = append(out, s[last:])
	return out
}

// resolveFuncName turns "(*T).M", "F", "alias.F", "(alias.T).M", with optional $k, into a full key.
func resolveFuncName(name, pkgPath string, imports map[string]string) string {
	name = strings.TrimSpace(name)
	if strings.Contains(name, "/") {
		return name // already absolute
	}
	if strings.HasPrefix(name, "(") {
		i := strings.Index(name, ")")
		recv := name[1:i]
		rest := name[i+1:]
		star := ""
		if strings.HasPrefix(recv, "*") {
			star = "*"
			recv = recv[1:]
		}
		p := pkgPath
		if j := strings.Index(recv, "."); j >= 0 {
			if ip, ok := imports[recv[:j]]; ok {
				p = ip
			} else {
				p = recv[:j]
			}
			recv = recv[j+1:]
		}
		return fmt.Sprintf("%s.(%s%s)%s", p, star, recv, rest)
	}
	if j := strings.Index(name, "."); j >= 0 {
		if ip, ok := imports[name[:j]]; ok {
			return ip + "." + name[j+1:]
		}
		return name
	}
	return pkgPath + "." + name
}

var aliasTypeRe = regexp.MustCompile(`([A-Za-z_][A-Za-z0-9_]*)\.([A-Za-z_][A-Za-z0-9_]*)`)

// resolveTypeAliases rewrites alias.T in type strings to "path".T form understood by the evaluator.
func resolveTypeAliases(t, pkgPath string, imports map[string]string) string {
	return aliasTypeRe.ReplaceAllStringFunc(t, func(m string) string {
		sm := aliasTypeRe.FindStringSubmatch(m)
		if ip, ok := imports[sm[1]]; ok {
			return "{" + ip + "}." + sm[2]
		}
		return m
	})
}

func parseSpecFunc(s, pkgPath string, imports map[string]string) (*SpecFunc, error) {
	// name(a T, b U) R [= expr]
	i := strings.Index(s, "(")
	if i < 0 {
		return nil, fmt.Errorf("spec func syntax")
	}
	name := strings.TrimSpace(s[:i])
	depth := 0
	j := i
	for ; j < len(s); j++ {
		if s[j] == '(' {
			depth++
		} else if s[j] == ')' {
			depth--
			if depth == 0 {
				break
			}
		}
	}
	if j >= len(s) {
		return nil, fmt.Errorf("spec func syntax: unbalanced")
	}
	params := s[i+1 : j]
	rest := strings.TrimSpace(s[j+1:])
	sf := &SpecFunc{Name: name}
	for _, p := range splitTop(params, ',') {
		p = strings.TrimSpace(p)
		if p == "" {
			continue
		}
		f := strings.SplitN(p, " ", 2)
		if len(f) != 2 {
			return nil, fmt.Errorf("spec func param %q", p)
		}
		sf.Params = append(sf.Params, QVar{f[0], resolveTypeAliases(strings.TrimSpace(f[1]), pkgPath, imports)})
	}
	if k := strings.Index(rest, "="); k >= 0 && !strings.HasPrefix(rest[k:], "==") {
		sf.Ret = strings.TrimSpace(rest[:k])
		e, err := parseExpr(rest[k+1:])
		if err != nil {
			return nil, err
		}
		sf.Body = e
	} else {
		sf.Ret = rest
	}
	sf.Ret = resolveTypeAliases(sf.Ret, pkgPath, imports)
	return sf, nil
}

func parseMonitor(s, pkgPath string, imports map[string]string) (*Monitor, error) {
	// (*T).mu protects a, b invariant expr
	i := strings.Index(s, " protects ")
	if i < 0 {
		return nil, fmt.Errorf("monitor syntax")
	}
	head := strings.TrimSpace(s[:i])
	rest := s[i+len(" protects "):]
	inv := ""
	if j := strings.Index(rest, " invariant "); j >= 0 {
		inv = rest[j+len(" invariant "):]
		rest = rest[:j]
	}
	m := &Monitor{}
	k := strings.Index(head, ").")
	if !strings.HasPrefix(head, "(") || k < 0 {
		return nil, fmt.Errorf("monitor head")
	}
	tn := strings.TrimPrefix(head[1:k], "*")
	m.TypeKey = pkgPath + "." + tn
	m.MuField = head[k+2:]
	for _, f := range strings.Split(rest, ",") {
		m.Protects = append(m.Protects, strings.TrimSpace(f))
	}
	if inv != "" {
		label := ""
		if mm := labelRe.FindStringSubmatch(inv); mm != nil {
			label, inv = mm[1], mm[2]
		}
		e, err := parseExpr(inv)
		if err != nil {
			return nil, err
		}
		m.Inv = append(m.Inv, Clause{label, e, inv})
	}
	return m, nil
}

// keyInPackage reports whether a function key belongs to the given package path.
func keyInPackage(key, pkg string) bool {
	k := key
	if i := strings.Index(k, "#"); i >= 0 {
		k = k[:i]
	}
	return strings.HasPrefix(k, pkg+".") && !strings.Contains(strings.TrimPrefix(k, pkg+"."), "/")
}
