package main

import (
	"fmt"
	"go/types"
	"strings"

	"golang.org/x/tools/go/ssa"
)

func (fr *Frame) execBuiltin(ins ssa.CallInstruction, cc *ssa.CallCommon, b *ssa.Builtin) []Term {
	c := fr.c
	arg := func(i int) Term { return fr.val(cc.Args[i]) }
	switch b.Name() {
	case "len":
		v := arg(0)
		switch t := cc.Args[0].Type().Underlying().(type) {
		case *types.Slice:
			return []Term{sliceLen(v)}
		case *types.Basic:
			n := app(SInt, "str_len", v)
			c.assume(app(SBool, ">=", n, tInt(0)))
			return []Term{n}
		case *types.Map:
			n := c.fresh("maplen", SInt)
			c.assumeDef(eq(n, c.mapLenTerm(fr.st, v, t)))
			c.assume(app(SBool, ">=", n, tInt(0)))
			return []Term{n}
		case *types.Pointer:
			if a, ok := t.Elem().Underlying().(*types.Array); ok {
				return []Term{tInt(a.Len())}
			}
		case *types.Array:
			return []Term{tInt(t.Len())}
		case *types.Chan:
			n := c.fresh("chanlen", SInt)
			c.assume(app(SBool, ">=", n, tInt(0)))
			return []Term{n}
		}
		unsupp("len of %s", cc.Args[0].Type())
	case "cap":
		v := arg(0)
		switch t := cc.Args[0].Type().Underlying().(type) {
		case *types.Slice:
			return []Term{sliceCap(v)}
		case *types.Pointer:
			if a, ok := t.Elem().Underlying().(*types.Array); ok {
				return []Term{tInt(a.Len())}
			}
		case *types.Array:
			return []Term{tInt(t.Len())}
		case *types.Chan:
			n := c.fresh("chancap", SInt)
			c.assume(app(SBool, ">=", n, tInt(0)))
			return []Term{n}
		}
		unsupp("cap of %s", cc.Args[0].Type())
	case "append":
		return []Term{fr.execAppend(ins, cc)}
	case "copy":
		return []Term{fr.execCopy(ins, cc)}
	case "delete":
		fr.mapDelete(cc.Args[0], cc.Args[1])
		return nil
	case "close":
		ch := arg(0)
		top := fr.topFrame()
		check := top.fc != nil && containsStr(top.fc.Notes, "check close")
		cl := c.ghost(fr.st, "closed")
		if check {
			fr.oblige("safety.close", "", and(not(eq(ch, tNilPtr)), not(sel(cl, ch, SBool))), ins.Pos(), "close of nil or closed channel")
		}
		c.setGhost(fr.st, "closed", sto(cl, ch, tTrue))
		return nil
	case "min", "max":
		r := arg(0)
		for i := 1; i < len(cc.Args); i++ {
			a := arg(i)
			if r.Sort != SInt {
				unsupp("min/max on %s", r.Sort)
			}
			if b.Name() == "min" {
				r = ite(app(SBool, "<=", r, a), r, a)
			} else {
				r = ite(app(SBool, ">=", r, a), r, a)
			}
		}
		return []Term{r}
	case "recover":
		r := c.fresh("recovered", SIface)
		return []Term{r}
	case "print", "println":
		return nil
	case "ssa:wrapnilchk":
		v := arg(0)
		fr.nilCheck(v, ins.Pos(), "nil receiver in method value")
		return []Term{v}
	case "clear":
		switch t := cc.Args[0].Type().Underlying().(type) {
		case *types.Map:
			m := arg(0)
			ks := c.sortOf(t.Key())
			dn, _ := c.mapDomName(t)
			d := c.mapDom(fr.st, t)
			dsort := fmt.Sprintf("(Array %s Bool)", ks)
			c.setMapHeap(fr.st, dn, sto(d, m, Term{fmt.Sprintf("((as const %s) false)", dsort), dsort}))
			c.setMapHeap(fr.st, "ML", sto(c.mapLenHeap(fr.st), m, tInt(0)))
			return nil
		}
		unsupp("clear of %s", cc.Args[0].Type())
	}
	unsupp("builtin %s", b.Name())
	return nil
}

func containsStr(xs []string, s string) bool {
	for _, x := range xs {
		if x == s {
			return true
		}
	}
	return false
}

// staticVarargs recognises the SSA shape of `append(s, a, b)`: a freshly allocated array
// sliced in full, and returns its element count.
func staticVarargs(v ssa.Value) (*ssa.Alloc, int64, bool) {
	sl, ok := v.(*ssa.Slice)
	if !ok || sl.Low != nil || sl.High != nil || sl.Max != nil {
		return nil, 0, false
	}
	al, ok := sl.X.(*ssa.Alloc)
	if !ok {
		return nil, 0, false
	}
	arr, ok := al.Type().Underlying().(*types.Pointer).Elem().Underlying().(*types.Array)
	if !ok {
		return nil, 0, false
	}
	return al, arr.Len(), true
}

// execAppend models append exactly as the language allows: in place when the capacity
// suffices, otherwise a fresh backing array of unspecified capacity >= the new length.
func (fr *Frame) execAppend(ins ssa.CallInstruction, cc *ssa.CallCommon) Term {
	c := fr.c
	s := fr.val(cc.Args[0])
	st, isSlice := cc.Args[0].Type().Underlying().(*types.Slice)
	if !isSlice {
		unsupp("append to %s", cc.Args[0].Type())
	}
	et := st.Elem()
	if isNilConst(cc.Args[1]) {
		return s
	}
	var t Term
	srcIsString := false
	if bt, ok := cc.Args[1].Type().Underlying().(*types.Basic); ok && bt.Info()&types.IsString != 0 {
		srcIsString = true
	}
	t = fr.val(cc.Args[1])
	var n Term
	if srcIsString {
		n = app(SInt, "str_len", t)
	} else {
		n = sliceLen(t)
	}
	oldLen := c.fresh("applen", SInt)
	c.assumeDef(eq(oldLen, sliceLen(s)))
	newLen := c.fresh("appnew", SInt)
	c.assumeDef(eq(newLen, app(SInt, "+", oldLen, n)))
	inplace := c.fresh("inplace", SBool)
	c.assumeDef(eq(inplace, app(SBool, "<=", newLen, sliceCap(s))))
	if fr.inLocalOnly() {
		fr.oblige("loop.local", "", implies(inplace, Term{fmt.Sprintf("(>= (rootid (sbase %s)) alloc@0)", s.S), SBool}), ins.Pos(), "in-place append inside a `modifies local` loop targets an array allocated by this function")
	}
	nb := c.allocObj(fr.st)
	ncap := c.fresh("newcap", SInt)
	c.assume(app(SBool, ">=", ncap, newLen))
	res := c.fresh("appres", SSlice)
	c.assumeDef(eq(res, ite(inplace, mkSlice(sliceBase(s), sliceOff(s), newLen, sliceCap(s)), mkSlice(nb, tInt(0), newLen, ncap))))
	_, k, static := staticVarargs(cc.Args[1])
	for _, lp := range c.leafPaths(et) {
		srt := c.sortOf(lp.t)
		h := c.heap(fr.st, srt)
		srcCell := func(j string) string {
			if srcIsString {
				return fmt.Sprintf("(str_at %s %s)", t.S, j)
			}
			return fmt.Sprintf("(select %s %s)", h.S, lp.ptr(Term{fmt.Sprintf("(pelem (sbase %s) (+ (soff %s) %s))", t.S, t.S, j), SPtr}).S)
		}
		if srt == SPtr {
			// pointer cells: the heap after the append is a new heap defined cell by cell (the
			// well-formedness axiom of pointer heaps speaks about every cell, so the content of
			// the new array must not be claimed to have been there before)
			nh := c.fresh(heapName(srt), h.Sort)
			condN, rootN := lp.match("p")
			condN = append(condN, fmt.Sprintf("((_ is pelem) %s)", rootN), fmt.Sprintf("(= (ebase %s) %s)", rootN, nb.S),
				fmt.Sprintf("(<= 0 (eidx %s))", rootN), fmt.Sprintf("(< (eidx %s) %s)", rootN, newLen.S))
			oldAt := fmt.Sprintf("(select %s %s)", h.S, lp.ptr(Term{fmt.Sprintf("(pelem (sbase %s) (+ (soff %s) (eidx %s)))", s.S, s.S, rootN), SPtr}).S)
			valN := fmt.Sprintf("(ite (< (eidx %s) %s) %s %s)", rootN, oldLen.S, oldAt, srcCell(fmt.Sprintf("(- (eidx %s) %s)", rootN, oldLen.S)))
			condI, rootI := lp.match("p")
			condI = append(condI, fmt.Sprintf("((_ is pelem) %s)", rootI), fmt.Sprintf("(= (ebase %s) (sbase %s))", rootI, s.S),
				fmt.Sprintf("(<= (+ (soff %s) %s) (eidx %s))", s.S, oldLen.S, rootI), fmt.Sprintf("(< (eidx %s) (+ (soff %s) %s))", rootI, s.S, newLen.S))
			valI := srcCell(fmt.Sprintf("(- (eidx %s) (soff %s) %s)", rootI, s.S, oldLen.S))
			c.assume(Term{fmt.Sprintf("(forall ((p Ptr)) (! (= (select %s p) (ite (and (not %s) %s) %s (ite (and %s %s) %s (select %s p)))) :pattern ((select %s p))))",
				nh.S, inplace.S, strings.Join(condN, " "), valN, inplace.S, strings.Join(condI, " "), valI, h.S, nh.S), SBool})
			fr.st.heaps[heapName(srt)] = nh
			// view-level consequences in the syntactic form contracts use
			resCell := func(j string) string {
				return lp.ptr(Term{fmt.Sprintf("(pelem (sbase %s) (+ (soff %s) %s))", res.S, res.S, j), SPtr}).S
			}
			oldCell := lp.ptr(Term{fmt.Sprintf("(pelem (sbase %s) (+ (soff %s) j))", s.S, s.S), SPtr}).S
			fr.assumeHere(Term{fmt.Sprintf("(forall ((j Int)) (! (=> (and (<= 0 j) (< j %s)) (= (select %s %s) (select %s %s))) :pattern ((select %s %s))))",
				oldLen.S, nh.S, resCell("j"), h.S, oldCell, nh.S, resCell("j")), SBool})
			if static && k <= 8 {
				for j := int64(0); j < k; j++ {
					fr.assumeHere(Term{fmt.Sprintf("(= (select %s %s) %s)", nh.S, resCell(fmt.Sprintf("(+ %s %d)", oldLen.S, j)), srcCell(fmt.Sprint(j))), SBool})
				}
			} else {
				fr.assumeHere(Term{fmt.Sprintf("(forall ((j Int)) (! (=> (and (<= %s j) (< j %s)) (= (select %s %s) %s)) :pattern ((select %s %s))))",
					oldLen.S, newLen.S, nh.S, resCell("j"), srcCell(fmt.Sprintf("(- j %s)", oldLen.S)), nh.S, resCell("j")), SBool})
			}
			continue
		}
		// grow case: the fresh array's cells (never written before) hold prefix and new elements
		newCell := lp.ptr(Term{"(pelem " + nb.S + " j)", SPtr})
		fr.assumeHere(Term{fmt.Sprintf("(forall ((j Int)) (! (=> (and (<= 0 j) (< j %s)) (= (select %s %s) (select %s %s))) :pattern ((select %s %s))))",
			oldLen.S, h.S, newCell.S, h.S, lp.ptr(Term{fmt.Sprintf("(pelem (sbase %s) (+ (soff %s) j))", s.S, s.S), SPtr}).S, h.S, newCell.S), SBool})
		if static && k <= 8 {
			for j := int64(0); j < k; j++ {
				fr.assumeHere(Term{fmt.Sprintf("(= (select %s %s) %s)", h.S, lp.ptr(Term{fmt.Sprintf("(pelem %s (+ %s %d))", nb.S, oldLen.S, j), SPtr}).S, srcCell(fmt.Sprint(j))), SBool})
			}
			// in-place case: explicit stores
			hi := h
			for j := int64(0); j < k; j++ {
				dst := lp.ptr(Term{fmt.Sprintf("(pelem (sbase %s) (+ (soff %s) %s %d))", s.S, s.S, oldLen.S, j), SPtr})
				hi = sto(hi, dst, Term{srcCell(fmt.Sprint(j)), srt})
			}
			c.setHeap(fr.st, srt, ite(inplace, hi, h))
			// view-level consequences (derived; stated in the syntactic form contracts use, so
			// that quantifier instantiation finds them): the result's prefix is the old content
			// and its new elements are the appended ones
			nhv := fr.st.heaps[heapName(srt)]
			resCell := func(j string) string {
				return lp.ptr(Term{fmt.Sprintf("(pelem (sbase %s) (+ (soff %s) %s))", res.S, res.S, j), SPtr}).S
			}
			oldCell := lp.ptr(Term{fmt.Sprintf("(pelem (sbase %s) (+ (soff %s) j))", s.S, s.S), SPtr}).S
			fr.assumeHere(Term{fmt.Sprintf("(forall ((j Int)) (! (=> (and (<= 0 j) (< j %s)) (= (select %s %s) (select %s %s))) :pattern ((select %s %s))))",
				oldLen.S, nhv.S, resCell("j"), h.S, oldCell, nhv.S, resCell("j")), SBool})
			for j := int64(0); j < k; j++ {
				fr.assumeHere(Term{fmt.Sprintf("(= (select %s %s) %s)", nhv.S, resCell(fmt.Sprintf("(+ %s %d)", oldLen.S, j)), srcCell(fmt.Sprint(j))), SBool})
			}
			continue
		}
		fr.assumeHere(Term{fmt.Sprintf("(forall ((j Int)) (! (=> (and (<= %s j) (< j %s)) (= (select %s %s) %s)) :pattern ((select %s %s))))",
			oldLen.S, newLen.S, h.S, newCell.S, srcCell(fmt.Sprintf("(- j %s)", oldLen.S)), h.S, newCell.S), SBool})
		// in-place case: quantified update of the region [off+len, off+newLen)
		nh := c.fresh(heapName(srt), h.Sort)
		cond, root := lp.match("p")
		cond = append(cond, fmt.Sprintf("((_ is pelem) %s)", root), fmt.Sprintf("(= (ebase %s) (sbase %s))", root, s.S),
			fmt.Sprintf("(<= (+ (soff %s) %s) (eidx %s))", s.S, oldLen.S, root), fmt.Sprintf("(< (eidx %s) (+ (soff %s) %s))", root, s.S, newLen.S))
		j := fmt.Sprintf("(- (eidx %s) (soff %s) %s)", root, s.S, oldLen.S)
		c.assume(Term{fmt.Sprintf("(forall ((p Ptr)) (! (= (select %s p) (ite (and %s %s) %s (select %s p))) :pattern ((select %s p))))",
			nh.S, inplace.S, strings.Join(cond, " "), srcCell(j), h.S, nh.S), SBool})
		fr.st.heaps[heapName(srt)] = nh
	}
	return res
}

func (fr *Frame) execCopy(ins ssa.CallInstruction, cc *ssa.CallCommon) Term {
	c := fr.c
	dst := fr.val(cc.Args[0])
	src := fr.val(cc.Args[1])
	dt := cc.Args[0].Type().Underlying().(*types.Slice)
	srcIsString := src.Sort == SStr
	var sl Term
	if srcIsString {
		sl = app(SInt, "str_len", src)
	} else {
		sl = sliceLen(src)
	}
	n := c.fresh("copyn", SInt)
	c.assumeDef(eq(n, ite(app(SBool, "<=", sliceLen(dst), sl), sliceLen(dst), sl)))
	fr.localWriteCheck(sliceBase(dst), ins.Pos())
	for _, lp := range c.leafPaths(dt.Elem()) {
		srt := c.sortOf(lp.t)
		h := c.heap(fr.st, srt)
		nh := c.fresh(heapName(srt), h.Sort)
		cond, root := lp.match("p")
		cond = append(cond, fmt.Sprintf("((_ is pelem) %s)", root), fmt.Sprintf("(= (ebase %s) (sbase %s))", root, dst.S),
			fmt.Sprintf("(<= (soff %s) (eidx %s))", dst.S, root), fmt.Sprintf("(< (eidx %s) (+ (soff %s) %s))", root, dst.S, n.S))
		j := fmt.Sprintf("(- (eidx %s) (soff %s))", root, dst.S)
		var srcCell string
		if srcIsString {
			srcCell = fmt.Sprintf("(str_at %s %s)", src.S, j)
		} else {
			srcCell = fmt.Sprintf("(select %s %s)", h.S, lp.ptr(Term{fmt.Sprintf("(pelem (sbase %s) (+ (soff %s) %s))", src.S, src.S, j), SPtr}).S)
		}
		c.assume(Term{fmt.Sprintf("(forall ((p Ptr)) (! (= (select %s p) (ite (and %s) %s (select %s p))) :pattern ((select %s p))))",
			nh.S, strings.Join(cond, " "), srcCell, h.S, nh.S), SBool})
		fr.st.heaps[heapName(srt)] = nh
	}
	return n
}
