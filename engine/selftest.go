package main

import (
	"encoding/json"
	"flag"
	"fmt"
	"os"
	"os/exec"
	"path/filepath"
	"sort"
	"strings"
	"sync"
)

// Mutant is one entry of the must-fail / must-pass corpus: a source substitution applied
// through the packages overlay (nothing is written to /repo).
type Mutant struct {
	Name   string   `json:"name"`
	File   string   `json:"file"` // relative to /repo
	Old    string   `json:"old"`
	New    string   `json:"new"`
	Edits  []Edit   `json:"edits"`  // additional substitutions (two cooperating sites)
	Expect []string `json:"expect"` // substrings of obligation names, any of which must fail; ["PASS"] = must still verify
	Note   string   `json:"note"`
}

type Edit struct {
	File string `json:"file"`
	Old  string `json:"old"`
	New  string `json:"new"`
}

type MutantResult struct {
	Name   string   `json:"name"`
	Caught bool     `json:"caught"`
	Failed []string `json:"failed_obligations"`
	Expect []string `json:"expect"`
	Detail string   `json:"detail,omitempty"`
}

func loadMutants(id string) ([]Mutant, error) {
	dir := filepath.Join(verifRoot, "selftest", id)
	ents, err := os.ReadDir(dir)
	if err != nil {
		return nil, nil
	}
	var out []Mutant
	for _, e := range ents {
		if !strings.HasSuffix(e.Name(), ".json") {
			continue
		}
		data, err := os.ReadFile(filepath.Join(dir, e.Name()))
		if err != nil {
			return nil, err
		}
		var ms []Mutant
		if err := json.Unmarshal(data, &ms); err != nil {
			var m Mutant
			if err2 := json.Unmarshal(data, &m); err2 != nil {
				return nil, fmt.Errorf("%s: %v", e.Name(), err)
			}
			ms = []Mutant{m}
		}
		for i := range ms {
			if ms[i].Name == "" {
				ms[i].Name = fmt.Sprintf("%s#%d", strings.TrimSuffix(e.Name(), ".json"), i)
			}
		}
		out = append(out, ms...)
	}
	sort.Slice(out, func(i, j int) bool { return out[i].Name < out[j].Name })
	return out, nil
}

func (m *Mutant) overlay() (map[string][]byte, error) {
	ov := map[string][]byte{}
	edits := append([]Edit{{m.File, m.Old, m.New}}, m.Edits...)
	for _, e := range edits {
		if e.File == "" {
			continue
		}
		abs := filepath.Join(repoRoot, e.File)
		cur, ok := ov[abs]
		if !ok {
			data, err := os.ReadFile(abs)
			if err != nil {
				return nil, err
			}
			cur = data
		}
		if strings.Count(string(cur), e.Old) != 1 {
			return nil, fmt.Errorf("mutant %s: pattern occurs %d times in %s (need exactly 1)", m.Name, strings.Count(string(cur), e.Old), e.File)
		}
		ov[abs] = []byte(strings.Replace(string(cur), e.Old, e.New, 1))
	}
	return ov, nil
}

func runMutant(ps *PropSpec, m Mutant, opts Options) MutantResult {
	res := MutantResult{Name: m.Name, Expect: m.Expect}
	ov, err := m.overlay()
	if err != nil {
		res.Detail = err.Error()
		return res
	}
	o := opts
	o.WorkDir = mkWorkDir()
	o.NoVacuity = false
	defer os.RemoveAll(o.WorkDir)
	out := runUnits(ps, o, ov)
	known := map[string]bool{}
	for _, k := range loadKnownFindings() {
		if k.Property == ps.ID && k.Status == "known" {
			known[k.Obligation] = true
		}
	}
	for _, r := range out.Results {
		for _, ob := range r.Obls {
			if os.Getenv("GVC_SELFTEST_DEBUG") != "" && strings.Contains(ob.Name, os.Getenv("GVC_SELFTEST_DEBUG")) {
				fmt.Printf("   [debug] %s %s %s %.2fs\n", ob.Name, ob.Res.Verdict, ob.Res.Solver, ob.Res.TimeS)
			}
			if ob.Res.Verdict != "unsat" && !known[ob.Name] {
				res.Failed = append(res.Failed, ob.Name)
			}
		}
		if r.Err != "" {
			res.Failed = append(res.Failed, "engine-error: "+shortKey(r.Key)+": "+truncate(r.Err, 200))
		}
		for _, v := range r.Vacuity {
			res.Failed = append(res.Failed, "vacuous: "+shortKey(r.Key)+": "+v)
		}
	}
	for _, e := range out.EngineErrs {
		res.Failed = append(res.Failed, "engine-error: "+truncate(e, 200))
	}
	mustPass := len(m.Expect) == 1 && m.Expect[0] == "PASS"
	if mustPass {
		res.Caught = len(res.Failed) == 0
		return res
	}
	for _, f := range res.Failed {
		if len(m.Expect) == 0 {
			res.Caught = true
		}
		for _, e := range m.Expect {
			if strings.Contains(f, e) {
				res.Caught = true
			}
		}
	}
	return res
}

func runSelftest(ps *PropSpec, opts Options, filter string, par int) ([]MutantResult, error) {
	ms, err := loadMutants(ps.ID)
	if err != nil {
		return nil, err
	}
	var sel []Mutant
	for _, m := range ms {
		if filter == "" || strings.Contains(m.Name, filter) {
			sel = append(sel, m)
		}
	}
	results := make([]MutantResult, len(sel))
	var wg sync.WaitGroup
	sem := make(chan struct{}, par)
	for i, m := range sel {
		wg.Add(1)
		sem <- struct{}{}
		go func(i int, m Mutant) {
			defer wg.Done()
			defer func() { <-sem }()
			results[i] = runMutant(ps, m, opts)
		}(i, m)
	}
	wg.Wait()
	return results, nil
}

func cmdSelftest(args []string) int {
	fs := flag.NewFlagSet("selftest", flag.ExitOnError)
	filter := fs.String("m", "", "only mutants whose name contains this")
	par := fs.Int("j", 3, "mutants in parallel")
	verbose := fs.Bool("v", false, "verbose")
	if len(args) < 1 {
		usage()
	}
	id := args[0]
	_ = fs.Parse(args[1:])
	ps, err := loadPropSpec(id)
	if err != nil {
		fmt.Fprintln(os.Stderr, err)
		return 2
	}
	opts := Options{TimeoutS: 20, Tier: "quick"}
	results, err := runSelftest(ps, opts, *filter, *par)
	if err != nil {
		fmt.Fprintln(os.Stderr, err)
		return 2
	}
	bad := 0
	for _, r := range results {
		st := "CAUGHT"
		if len(r.Expect) == 1 && r.Expect[0] == "PASS" {
			st = "PASSES"
		}
		if !r.Caught {
			st = "MISSED"
			bad++
		}
		fmt.Printf("%s %-50s expect=%v\n", st, r.Name, r.Expect)
		if *verbose || !r.Caught {
			for _, f := range r.Failed {
				fmt.Println("      failed:", f)
			}
			if r.Detail != "" {
				fmt.Println("      detail:", r.Detail)
			}
		}
	}
	fmt.Printf("selftest %s: %d mutants, %d not as expected\n", id, len(results), bad)
	if bad > 0 {
		return 1
	}
	return 0
}

// runThoroughExtras: the must-fail / must-pass corpus is part of the thorough tier; a mutant
// that is not caught by the expected obligation is an engine error.
// runKnownReplays runs the hand-written replays of the property's listed findings against the
// real code (go test -overlay, nothing written to /repo). A replay of a FIXED finding must pass: if
// it fails the defect is back, and that is a violation with a real failing input. A replay of a
// KNOWN finding is expected to fail; if it passes the entry is stale (noted, not alarmed).
func runKnownReplays(ps *PropSpec, rep *Report) {
	type rr struct {
		File     string `json:"file"`
		Expected string `json:"expected"`
		Outcome  string `json:"outcome"`
	}
	var out []rr
	kf := loadKnownFindings()
	for _, spec := range ps.Replays {
		f := strings.Split(spec, "|")
		if len(f) != 5 {
			rep.EngineErrs = append(rep.EngineErrs, "known_replays entry malformed: "+spec)
			continue
		}
		expectFail := false
		for _, k := range kf {
			if k.Replay == f[0] && k.Property == ps.ID && k.Status == "known" {
				expectFail = true
			}
		}
		cmd := exec.Command(filepath.Join(verifRoot, "tools", "run_replay.sh"), f[0], f[1], f[2], f[3], f[4])
		b, err := cmd.CombinedOutput()
		failed := err != nil
		txt := string(b)
		r := rr{File: f[0]}
		switch {
		case strings.Contains(txt, "build failed") || strings.Contains(txt, "setup failed"):
			r.Expected, r.Outcome = "runs", "did not build"
			rep.Notes = append(rep.Notes, "replay "+f[0]+" did not build: "+truncate(txt, 300))
		case expectFail && failed:
			r.Expected, r.Outcome = "fails (known finding)", "fails: the listed finding reproduces"
		case expectFail && !failed:
			r.Expected, r.Outcome = "fails (known finding)", "passes: the listed finding no longer reproduces (stale entry)"
			rep.Notes = append(rep.Notes, "replay "+f[0]+" of a known finding passes: the entry is stale")
		case !expectFail && failed:
			r.Expected, r.Outcome = "passes (fixed finding)", "FAILS: the repaired defect is back"
			rep.Violations++
			rep.ViolLines = append(rep.ViolLines, fmt.Sprintf("VIOLATION property=%s replay=%s obligation=replay-of-fixed-finding", ps.ID, filepath.Join(verifRoot, f[0])))
		default:
			r.Expected, r.Outcome = "passes (fixed finding)", "passes"
		}
		out = append(out, r)
	}
	if len(out) > 0 {
		rep.Extras["known_replays"] = out
	}
}

func runThoroughExtras(ps *PropSpec, rep *Report, opts Options) {
	runKnownReplays(ps, rep)
	o := opts
	o.TwoSolvers = false
	o.TimeoutS = 20
	results, err := runSelftest(ps, o, "", 3)
	if err != nil {
		rep.EngineErrs = append(rep.EngineErrs, "selftest: "+err.Error())
		return
	}
	caught := 0
	var missed []string
	for _, r := range results {
		if r.Caught {
			caught++
		} else {
			missed = append(missed, r.Name)
		}
	}
	rep.Extras["selftest_mutants"] = len(results)
	rep.Extras["selftest_as_expected"] = caught
	rep.Extras["selftest_results"] = results
	if len(missed) > 0 {
		// a corpus miss says the machinery is weaker than intended; it is not a violation of the
		// property by the tree under check, so it is reported, not alarmed
		rep.Extras["selftest_missed"] = missed
		rep.Notes = append(rep.Notes, fmt.Sprintf("selftest: %d mutants not caught as expected: %v", len(missed), missed))
	}
}
