package main

import (
	"fmt"
	"go/ast"
	"go/token"
	"go/types"
	"path/filepath"
	"reflect"
	"regexp"
	"sort"
	"strconv"
	"strings"

	"golang.org/x/tools/go/ssa"
)

// Structural side conditions: facts about declarations (go/types level) that contracts on
// function bodies rest on. They are reported as structural, never counted as discharged
// obligations.

var renderingMethods = map[string]string{
	"Format":           "fmt.Formatter takes precedence over Stringer/GoStringer for every verb",
	"MarshalJSON":      "encoding/json prefers json.Marshaler over TextMarshaler",
	"MarshalYAML":      "yaml encoders prefer yaml.Marshaler over TextMarshaler",
	"Error":            "fmt and loggers print Error() in preference to String()",
	"AppendText":       "encoding.TextAppender is preferred by newer encoders",
	"AppendBinary":     "encoding.BinaryAppender is preferred by newer encoders",
	"GobEncode":        "gob encoding would bypass MarshalBinary",
	"MarshalLogObject": "zap object marshalling bypasses Stringer",
	"MarshalLogArray":  "zap array marshalling bypasses Stringer",
	"LogValue":         "slog.LogValuer bypasses Stringer",
}

func runStructural(name string, P *Program) (checked int, violations []string) {
	switch name {
	case "configopaque_methodset":
		p := P.ByPath["go.opentelemetry.io/collector/config/configopaque"]
		if p == nil {
			return 0, []string{"configopaque not loaded"}
		}
		obj, _ := p.Types.Scope().Lookup("String").(*types.TypeName)
		if obj == nil {
			return 0, []string{"configopaque.String not found"}
		}
		if b, ok := obj.Type().Underlying().(*types.Basic); !ok || b.Kind() != types.String {
			violations = append(violations, "configopaque.String is no longer a string type")
		}
		checked++
		vals := types.NewMethodSet(obj.Type())
		ptrs := types.NewMethodSet(types.NewPointer(obj.Type()))
		for _, m := range []string{"String", "GoString", "MarshalText", "MarshalBinary"} {
			checked++
			if vals.Lookup(p.Types, m) == nil {
				violations = append(violations, fmt.Sprintf("configopaque.String has no value-receiver method %s (values, map/slice elements and embedded uses would not dispatch to it)", m))
			}
		}
		var names []string
		for i := 0; i < ptrs.Len(); i++ {
			names = append(names, ptrs.At(i).Obj().Name())
		}
		sort.Strings(names)
		for _, n := range names {
			checked++
			if why, bad := renderingMethods[n]; bad {
				violations = append(violations, fmt.Sprintf("configopaque.String declares method %s: %s — it is not under a redaction contract", n, why))
			}
		}
		return checked, violations
	}
	if name == "strict_decoding_callsites" {
		// C13: decoding rejects keys that no field accepts unless a call site opts out with
		// confmap.WithIgnoreUnused(); no function of the loaded collector packages may do so.
		if P.ByPath["go.opentelemetry.io/collector/confmap"] == nil {
			return 0, nil // this unit does not load confmap users
		}
		var keys []string
		for k := range P.Funcs {
			keys = append(keys, k)
		}
		sort.Strings(keys)
		for _, k := range keys {
			f := P.Funcs[k]
			if f.Blocks == nil || !strings.HasPrefix(k, "go.opentelemetry.io/collector/") || strings.HasPrefix(k, "go.opentelemetry.io/collector/cmd/") {
				continue
			}
			checked++
			for _, b := range f.Blocks {
				for _, ins := range b.Instrs {
					ci, ok := ins.(ssa.CallInstruction)
					if !ok {
						continue
					}
					if callee := ci.Common().StaticCallee(); callee != nil && funcKey(originOf(callee)) == "go.opentelemetry.io/collector/confmap.WithIgnoreUnused" {
						pos := P.Fset.Position(ins.Pos())
						violations = append(violations, fmt.Sprintf("%s opts out of unknown-key rejection (confmap.WithIgnoreUnused at %s:%d)", shortKey(k), filepath.Base(pos.Filename), pos.Line))
					}
				}
			}
		}
		return checked, violations
	}
	if name == "json_field_coverage" {
		return jsonFieldCoverage(P)
	}
	if name == "copy_accessor_coverage" {
		return copyAccessorCoverage(P)
	}
	return 0, []string{"unknown structural check " + name}
}

// jsonFieldCoverage (C08): every hand-written JSON object decoder — a call
// iter.ReadObjectCB(func(iter, f string) bool { switch f { case ...: } }) — is matched against the
// protobuf message it fills (the protogen struct most of its cases assign into): for every
// protobuf field of that message, and for every member of its one-of groups, both the proto name
// (snake_case) and the JSON name (camelCase) must be a case of the switch. A field without a case is
// silently skipped by the decoder (default: iter.Skip()), i.e. lost in a JSON round trip.
func jsonFieldCoverage(P *Program) (checked int, violations []string) {
	tagRe := regexp.MustCompile(`name=([A-Za-z0-9_]+)`)
	jsonRe := regexp.MustCompile(`json=([A-Za-z0-9_]+)`)
	var paths []string
	for p := range P.ByPath {
		if strings.HasPrefix(p, "go.opentelemetry.io/collector/pdata") && !strings.Contains(p, "/protogen/") {
			paths = append(paths, p)
		}
	}
	sort.Strings(paths)
	protoStruct := func(t types.Type) *types.Named {
		if pt, ok := t.Underlying().(*types.Pointer); ok {
			t = pt.Elem()
		}
		n, ok := types.Unalias(t).(*types.Named)
		if !ok || n.Obj().Pkg() == nil || !strings.Contains(n.Obj().Pkg().Path(), "/protogen/") {
			return nil
		}
		if _, ok := n.Underlying().(*types.Struct); !ok {
			return nil
		}
		return n
	}
	for _, path := range paths {
		pkg := P.ByPath[path]
		// helpers of the package that wrap the tolerant enum reader (one level)
		enumHelpers := map[string]bool{"ReadEnumValue": true}
		for _, file := range pkg.Syntax {
			for _, d := range file.Decls {
				if fd, ok := d.(*ast.FuncDecl); ok && fd.Body != nil && fd.Recv == nil {
					ast.Inspect(fd.Body, func(m ast.Node) bool {
						if c, ok := m.(*ast.CallExpr); ok {
							if se, ok := c.Fun.(*ast.SelectorExpr); ok && se.Sel.Name == "ReadEnumValue" {
								enumHelpers[fd.Name.Name] = true
							}
						}
						return true
					})
				}
			}
		}
		for _, file := range pkg.Syntax {
			fname := P.Fset.Position(file.Pos()).Filename
			if strings.HasSuffix(fname, "_test.go") {
				continue
			}
			ast.Inspect(file, func(n ast.Node) bool {
				call, ok := n.(*ast.CallExpr)
				if !ok || len(call.Args) != 1 {
					return true
				}
				sel, ok := call.Fun.(*ast.SelectorExpr)
				if !ok || sel.Sel.Name != "ReadObjectCB" {
					return true
				}
				fl, ok := call.Args[0].(*ast.FuncLit)
				if !ok {
					return true
				}
				var sw *ast.SwitchStmt
				for _, st := range fl.Body.List {
					if s, ok := st.(*ast.SwitchStmt); ok {
						sw = s
					}
				}
				if sw == nil {
					return true
				}
				cases := map[string]bool{}
				clauseOf := map[string]*ast.CaseClause{}
				votes := map[*types.Named]int{}
				for _, cl := range sw.Body.List {
					cc := cl.(*ast.CaseClause)
					for _, e := range cc.List {
						if bl, ok := e.(*ast.BasicLit); ok && bl.Kind == token.STRING {
							if v, err := strconv.Unquote(bl.Value); err == nil {
								cases[v] = true
								clauseOf[v] = cc
							}
						}
					}
					for _, st := range cc.Body {
						ast.Inspect(st, func(m ast.Node) bool {
							if _, nested := m.(*ast.FuncLit); nested {
								return false
							}
							if se, ok := m.(*ast.SelectorExpr); ok {
								if tv, ok := pkg.TypesInfo.Types[se.X]; ok {
									if ps := protoStruct(tv.Type); ps != nil {
										if _, isField := pkg.TypesInfo.Selections[se]; isField {
											votes[ps]++
										}
									}
								}
							}
							return true
						})
					}
				}
				var target *types.Named
				best := 0
				for t, v := range votes {
					if v > best || (v == best && target != nil && t.Obj().Name() < target.Obj().Name()) {
						target, best = t, v
					}
				}
				pos := P.Fset.Position(call.Pos())
				where := fmt.Sprintf("%s:%d", filepath.Base(pos.Filename), pos.Line)
				if target == nil {
					return true // a decoder of something that is not a protogen message (not judged)
				}
				st := target.Underlying().(*types.Struct)
				var want []string
				enumNames := map[string]bool{}
				addTag := func(tag string) {
					pb := reflect.StructTag(tag).Get("protobuf")
					if pb == "" {
						return
					}
					if m := tagRe.FindStringSubmatch(pb); m != nil && strings.Contains(pb, ",enum=") && !strings.HasPrefix(m[1], "deprecated_") {
						enumNames[m[1]] = true
						if j := jsonRe.FindStringSubmatch(pb); j != nil {
							enumNames[j[1]] = true
						}
					}
					if m := tagRe.FindStringSubmatch(pb); m != nil {
						if strings.HasPrefix(m[1], "deprecated_") {
							// compatibility fields of old OTLP versions (field number 1000): the data
							// model has no accessor for them, so no value of the data model carries them
							return
						}
						want = append(want, m[1])
						if j := jsonRe.FindStringSubmatch(pb); j != nil {
							want = append(want, j[1])
						}
					}
				}
				for i := 0; i < st.NumFields(); i++ {
					tag := st.Tag(i)
					if reflect.StructTag(tag).Get("protobuf_oneof") != "" {
						// members of the one-of: the wrapper types of the same package implementing the interface
						it, ok := st.Field(i).Type().Underlying().(*types.Interface)
						if !ok {
							continue
						}
						sc := target.Obj().Pkg().Scope()
						for _, nm := range sc.Names() {
							tn, ok := sc.Lookup(nm).(*types.TypeName)
							if !ok {
								continue
							}
							ws, ok := tn.Type().Underlying().(*types.Struct)
							if !ok || ws.NumFields() != 1 || !types.Implements(types.NewPointer(tn.Type()), it) {
								continue
							}
							addTag(ws.Tag(0))
						}
						continue
					}
					addTag(tag)
				}
				for _, w := range want {
					checked++
					if !cases[w] {
						violations = append(violations, fmt.Sprintf("JSON decoder at %s fills %s.%s but has no case %q: the field is skipped when decoding", where, target.Obj().Pkg().Name(), target.Obj().Name(), w))
						continue
					}
					if enumNames[w] {
						// an enum may be written as a number or as a name: the case must use the tolerant reader
						checked++
						usesEnumReader := false
						for _, st := range clauseOf[w].Body {
							ast.Inspect(st, func(m ast.Node) bool {
								if c, ok := m.(*ast.CallExpr); ok {
									if se, ok := c.Fun.(*ast.SelectorExpr); ok && enumHelpers[se.Sel.Name] {
										usesEnumReader = true
									}
									if id, ok := c.Fun.(*ast.Ident); ok && enumHelpers[id.Name] {
										usesEnumReader = true
									}
								}
								return true
							})
						}
						if !usesEnumReader {
							violations = append(violations, fmt.Sprintf("JSON decoder at %s reads the enum field %q of %s.%s without json.ReadEnumValue: the value written as a NAME is not accepted", where, w, target.Obj().Pkg().Name(), target.Obj().Name()))
						}
					}
				}
				return true
			})
		}
	}
	sort.Strings(violations)
	return checked, violations
}

// copyAccessorCoverage (C07): for every pdata struct wrapper X (a struct with fields orig, state) of
// the loaded pdata packages whose CopyTo is a flat list of statements: every setter SetF of X is
// called on dest in CopyTo (dest.SetF(...)), and every getter G of X that returns a wrapper which
// itself has a CopyTo is copied (ms.G().CopyTo(dest.G())). A field whose accessor pair is missing
// from CopyTo is silently not copied. Wrappers whose CopyTo branches (one-of types) are not judged.
func copyAccessorCoverage(P *Program) (checked int, violations []string) {
	var paths []string
	for p := range P.ByPath {
		if strings.HasPrefix(p, "go.opentelemetry.io/collector/pdata/p") {
			paths = append(paths, p)
		}
	}
	sort.Strings(paths)
	for _, path := range paths {
		pkg := P.ByPath[path]
		for _, file := range pkg.Syntax {
			fname := P.Fset.Position(file.Pos()).Filename
			if strings.HasSuffix(fname, "_test.go") {
				continue
			}
			for _, d := range file.Decls {
				fd, ok := d.(*ast.FuncDecl)
				if !ok || fd.Name.Name != "CopyTo" || fd.Recv == nil || fd.Body == nil || len(fd.Recv.List) != 1 || len(fd.Recv.List[0].Names) != 1 {
					continue
				}
				recvObj := pkg.TypesInfo.Defs[fd.Recv.List[0].Names[0]]
				if recvObj == nil {
					continue
				}
				named, ok := types.Unalias(recvObj.Type()).(*types.Named)
				if !ok {
					continue
				}
				st, ok := named.Underlying().(*types.Struct)
				if !ok || st.NumFields() != 2 || st.Field(0).Name() != "orig" {
					continue
				}
				if _, isSlice := st.Field(0).Type().Underlying().(*types.Pointer).Elem().Underlying().(*types.Slice); isSlice {
					continue // slice wrappers are under contract, not judged here
				}
				flat := true
				ast.Inspect(fd.Body, func(n ast.Node) bool {
					switch n.(type) {
					case *ast.SwitchStmt, *ast.TypeSwitchStmt, *ast.IfStmt, *ast.ForStmt, *ast.RangeStmt:
						flat = false
					}
					return true
				})
				if !flat {
					continue
				}
				recvName := fd.Recv.List[0].Names[0].Name
				destName := ""
				if len(fd.Type.Params.List) == 1 && len(fd.Type.Params.List[0].Names) == 1 {
					destName = fd.Type.Params.List[0].Names[0].Name
				}
				setCalled := map[string]bool{}
				copied := map[string]bool{}
				ast.Inspect(fd.Body, func(n ast.Node) bool {
					call, ok := n.(*ast.CallExpr)
					if !ok {
						return true
					}
					sel, ok := call.Fun.(*ast.SelectorExpr)
					if !ok {
						return true
					}
					if id, ok := sel.X.(*ast.Ident); ok && id.Name == destName && strings.HasPrefix(sel.Sel.Name, "Set") {
						setCalled[sel.Sel.Name] = true
					}
					if sel.Sel.Name == "CopyTo" && len(call.Args) == 1 {
						// ms.G().CopyTo(dest.G())
						if inner, ok := sel.X.(*ast.CallExpr); ok {
							if is, ok := inner.Fun.(*ast.SelectorExpr); ok {
								if id, ok := is.X.(*ast.Ident); ok && id.Name == recvName {
									if ac, ok := call.Args[0].(*ast.CallExpr); ok {
										if as, ok := ac.Fun.(*ast.SelectorExpr); ok {
											if aid, ok := as.X.(*ast.Ident); ok && aid.Name == destName && as.Sel.Name == is.Sel.Name {
												copied[is.Sel.Name] = true
											}
										}
									}
								}
							}
						}
					}
					return true
				})
				ms := types.NewMethodSet(named)
				for i := 0; i < ms.Len(); i++ {
					m := ms.At(i).Obj().(*types.Func)
					if !m.Exported() {
						continue
					}
					sig := m.Type().(*types.Signature)
					nm := m.Name()
					if strings.HasPrefix(nm, "SetEmpty") {
						continue
					}
					if strings.HasPrefix(nm, "Set") && sig.Params().Len() == 1 && sig.Results().Len() == 0 {
						checked++
						if !setCalled[nm] {
							violations = append(violations, fmt.Sprintf("%s.%s.CopyTo does not call dest.%s: the field is not copied", pkg.Types.Name(), named.Obj().Name(), nm))
						}
						continue
					}
					if sig.Params().Len() == 0 && sig.Results().Len() == 1 {
						rt, ok := types.Unalias(sig.Results().At(0).Type()).(*types.Named)
						if !ok || rt.Obj().Pkg() == nil || !strings.HasPrefix(rt.Obj().Pkg().Path(), "go.opentelemetry.io/collector/pdata") {
							continue
						}
						if _, isStruct := rt.Underlying().(*types.Struct); !isStruct {
							continue
						}
						hasCopy := false
						rms := types.NewMethodSet(rt)
						for j := 0; j < rms.Len(); j++ {
							if rms.At(j).Obj().Name() == "CopyTo" {
								hasCopy = true
							}
						}
						if !hasCopy {
							continue
						}
						checked++
						if !copied[nm] {
							violations = append(violations, fmt.Sprintf("%s.%s.CopyTo does not copy %s() into dest.%s(): the nested value is not copied", pkg.Types.Name(), named.Obj().Name(), nm, nm))
						}
					}
				}
			}
		}
	}
	sort.Strings(violations)
	return checked, violations
}
