package main

import (
	"fmt"
	"go/types"
	"path/filepath"
	"sort"
	"strings"

	"golang.org/x/tools/go/ssa"
)

// Structural side conditions: facts about declarations (go/types level) that contracts on
// function bodies rest on. They are reported as structural, never counted as discharged
// obligations.

var renderingMethods = map[string]string{
	"Format":           "fmt.Formatter takes precedence over Stringer/GoStringer for every verb",
	"MarshalJSON":      "encoding/json prefers json.Marshaler over TextMarshaler",
	"MarshalYAML":      "yaml encoders prefer yaml.Marshaler over TextMarshaler",
	"Error":            "fmt and loggers print Error() in preference to String()",
	"AppendText":       "encoding.TextAppender is preferred by newer encoders",
	"AppendBinary":     "encoding.BinaryAppender is preferred by newer encoders",
	"GobEncode":        "gob encoding would bypass MarshalBinary",
	"MarshalLogObject": "zap object marshalling bypasses Stringer",
	"MarshalLogArray":  "zap array marshalling bypasses Stringer",
	"LogValue":         "slog.LogValuer bypasses Stringer",
}

func runStructural(name string, P *Program) (checked int, violations []string) {
	switch name {
	case "configopaque_methodset":
		p := P.ByPath["go.opentelemetry.io/collector/config/configopaque"]
		if p == nil {
			return 0, []string{"configopaque not loaded"}
		}
		obj, _ := p.Types.Scope().Lookup("String").(*types.TypeName)
		if obj == nil {
			return 0, []string{"configopaque.String not found"}
		}
		if b, ok := obj.Type().Underlying().(*types.Basic); !ok || b.Kind() != types.String {
			violations = append(violations, "configopaque.String is no longer a string type")
		}
		checked++
		vals := types.NewMethodSet(obj.Type())
		ptrs := types.NewMethodSet(types.NewPointer(obj.Type()))
		for _, m := range []string{"String", "GoString", "MarshalText", "MarshalBinary"} {
			checked++
			if vals.Lookup(p.Types, m) == nil {
				violations = append(violations, fmt.Sprintf("configopaque.String has no value-receiver method %s (values, map/slice elements and embedded uses would not dispatch to it)", m))
			}
		}
		var names []string
		for i := 0; i < ptrs.Len(); i++ {
			names = append(names, ptrs.At(i).Obj().Name())
		}
		sort.Strings(names)
		for _, n := range names {
			checked++
			if why, bad := renderingMethods[n]; bad {
				violations = append(violations, fmt.Sprintf("configopaque.String declares method %s: %s — it is not under a redaction contract", n, why))
			}
		}
		return checked, violations
	}
	if name == "strict_decoding_callsites" {
		// C13: decoding rejects keys that no field accepts unless a call site opts out with
		// confmap.WithIgnoreUnused(); no function of the loaded collector packages may do so.
		if P.ByPath["go.opentelemetry.io/collector/confmap"] == nil {
			return 0, nil // this unit does not load confmap users
		}
		var keys []string
		for k := range P.Funcs {
			keys = append(keys, k)
		}
		sort.Strings(keys)
		for _, k := range keys {
			f := P.Funcs[k]
			if f.Blocks == nil || !strings.HasPrefix(k, "go.opentelemetry.io/collector/") || strings.HasPrefix(k, "go.opentelemetry.io/collector/cmd/") {
				continue
			}
			checked++
			for _, b := range f.Blocks {
				for _, ins := range b.Instrs {
					ci, ok := ins.(ssa.CallInstruction)
					if !ok {
						continue
					}
					if callee := ci.Common().StaticCallee(); callee != nil && funcKey(originOf(callee)) == "go.opentelemetry.io/collector/confmap.WithIgnoreUnused" {
						pos := P.Fset.Position(ins.Pos())
						violations = append(violations, fmt.Sprintf("%s opts out of unknown-key rejection (confmap.WithIgnoreUnused at %s:%d)", shortKey(k), filepath.Base(pos.Filename), pos.Line))
					}
				}
			}
		}
		return checked, violations
	}
	return 0, []string{"unknown structural check " + name}
}
