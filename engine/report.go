package main

import (
	"crypto/sha1"
	"encoding/json"
	"fmt"
	"os"
	"path/filepath"
	"sort"
	"strings"
)

type KnownFinding struct {
	Property   string `json:"property"`
	Obligation string `json:"obligation"`
	What       string `json:"what"`
	Status     string `json:"status"` // known | fixed
	Commit     string `json:"commit,omitempty"`
	Replay     string `json:"replay,omitempty"`
}

func loadKnownFindings() []KnownFinding {
	data, err := os.ReadFile(filepath.Join(verifRoot, "known_findings.json"))
	if err != nil {
		return nil
	}
	var kf []KnownFinding
	if err := json.Unmarshal(data, &kf); err != nil {
		fmt.Fprintln(os.Stderr, "known_findings.json:", err)
		return nil
	}
	return kf
}

type OblReport struct {
	Name    string  `json:"name"`
	Kind    string  `json:"kind"`
	Func    string  `json:"func"`
	Verdict string  `json:"verdict"`
	Solver  string  `json:"solver"`
	TimeS   float64 `json:"time_s"`
	Desc    string  `json:"desc"`
	Pos     string  `json:"pos,omitempty"`
	QBytes  int     `json:"query_bytes"`
	Known   bool    `json:"known,omitempty"`
}

type Report struct {
	Prop        *PropSpec
	Tier        string
	Obls        []OblReport
	Failed      []*Obligation
	KnownHits   []string
	EngineErrs  []string
	VacuityErrs []string
	Funcs       []string
	Backends    map[string]int
	SolverS     float64
	GenS        float64
	LoadS       float64
	WallS       float64
	Violations  int
	Notes       []string
	Assumed     []string
	Files       []string
	VacuityN    int
	ViolLines   []string
	Extras      map[string]any
	Partial     bool
	Claimed     int
	Discharged  int
	KnownFail   int
}

func buildReport(ps *PropSpec, out *runOutput, opts Options, wall float64, partial bool) *Report {
	rep := &Report{Prop: ps, Tier: opts.Tier, Backends: map[string]int{}, Files: out.ContractFiles, LoadS: out.LoadS, WallS: wall, Partial: partial, Extras: map[string]any{}}
	rep.EngineErrs = append(rep.EngineErrs, out.EngineErrs...)
	rep.Extras["structural_conditions_checked"] = out.StructuralN
	known := map[string]KnownFinding{}
	for _, k := range loadKnownFindings() {
		if k.Property == ps.ID && k.Status == "known" {
			known[k.Obligation] = k
		}
	}
	notes := map[string]bool{}
	assumed := map[string]bool{}
	runDir := filepath.Join(verifRoot, "runs", ps.ID)
	_ = os.MkdirAll(runDir, 0o755)
	seenKnown := map[string]bool{}
	replayable := map[string]bool{}
	defer func() {
		// functions whose failed postconditions are replayed on the real code from the solver's model
		// (free functions over integers and booleans); for every other function a violation is
		// reported with no-failing-input-found
		rep.Extras["model_replay_functions"] = sortedKeys(replayable)
	}()
	for _, r := range out.Results {
		rep.Funcs = append(rep.Funcs, shortKey(r.Key))
		rep.GenS += r.GenS
		rep.VacuityN += r.VacuityN
		for _, n := range r.Notes {
			notes[n] = true
		}
		for _, a := range r.Assumed {
			assumed[a] = true
		}
		if r.Err != "" {
			rep.EngineErrs = append(rep.EngineErrs, fmt.Sprintf("%s: %s", shortKey(r.Key), r.Err))
		}
		for _, vp := range r.Vacuity {
			rep.VacuityErrs = append(rep.VacuityErrs, fmt.Sprintf("%s: vacuous: %s", shortKey(r.Key), vp))
		}
		for _, o := range r.Obls {
			if o.replay != nil {
				replayable[shortKey(r.Key)] = true
			}
			if o.Res.Verdict == "" {
				continue // filtered out by --obl
			}
			or := OblReport{Name: o.Name, Kind: o.Kind, Func: shortKey(o.Func), Verdict: o.Res.Verdict, Solver: o.Res.Solver, TimeS: round3(o.Res.TimeS), Desc: o.Desc, QBytes: len(o.Query)}
			rep.SolverS += o.Res.TimeS
			if k, isKnown := known[o.Name]; isKnown {
				or.Known = true
				rep.KnownFail++
				if o.Res.Verdict == "unsat" {
					// a listed finding that no longer fails: say so, do not fail the check
					rep.Notes = append(rep.Notes, fmt.Sprintf("known finding %s now discharges (remove it from known_findings.json or mark fixed)", o.Name))
				} else if !seenKnown[o.Name] {
					seenKnown[o.Name] = true
					rep.KnownHits = append(rep.KnownHits, fmt.Sprintf("KNOWN-FINDING: property=%s %s [%s]", ps.ID, k.What, o.Name))
				}
				rep.Obls = append(rep.Obls, or)
				continue
			}
			rep.Claimed++
			if o.Res.Verdict == "unsat" {
				rep.Discharged++
				rep.Backends[strings.SplitN(o.Res.Solver, "+", 2)[0]]++
			} else {
				rep.Failed = append(rep.Failed, o)
			}
			rep.Obls = append(rep.Obls, or)
		}
	}
	rep.Notes = append(rep.Notes, sortedKeys(notes)...)
	rep.Assumed = sortedKeys(assumed)
	// violations
	for _, o := range rep.Failed {
		path := filepath.Join(runDir, uniqueFileName(o.Name)+".json")
		suffix := writeReplay(path, ps.ID, o)
		rep.ViolLines = append(rep.ViolLines, fmt.Sprintf("VIOLATION property=%s replay=%s obligation=%s %s", ps.ID, path, o.Name, suffix))
		rep.Violations++
	}
	for i, e := range rep.EngineErrs {
		path := filepath.Join(runDir, fmt.Sprintf("engine_error_%d.json", i))
		writeJSON(path, map[string]any{"property": ps.ID, "kind": "engine-error", "obligation": "engine/" + firstWords(e), "detail": e,
			"explanation": "the contracts could not be bound to, or the verifier could not process, the current source; obligations that depend on it are undischarged"})
		kind := "engine-error"
		if strings.HasPrefix(e, "structural:") {
			kind = "structural-condition"
		}
		rep.ViolLines = append(rep.ViolLines, fmt.Sprintf("VIOLATION property=%s replay=%s obligation=%s no-failing-input-found", ps.ID, path, kind))
		rep.Violations++
	}
	for i, e := range rep.VacuityErrs {
		path := filepath.Join(runDir, fmt.Sprintf("vacuous_%d.json", i))
		writeJSON(path, map[string]any{"property": ps.ID, "kind": "vacuous", "detail": e})
		rep.ViolLines = append(rep.ViolLines, fmt.Sprintf("VIOLATION property=%s replay=%s obligation=vacuous no-failing-input-found", ps.ID, path))
		rep.Violations++
	}
	if !partial && ps.MinObls > 0 && rep.Claimed+rep.KnownFail < ps.MinObls {
		path := filepath.Join(runDir, "obligation_count.json")
		writeJSON(path, map[string]any{"property": ps.ID, "kind": "vacuous", "detail": fmt.Sprintf("only %d obligations generated, expected at least %d: contracts stopped binding", rep.Claimed+rep.KnownFail, ps.MinObls)})
		rep.ViolLines = append(rep.ViolLines, fmt.Sprintf("VIOLATION property=%s replay=%s obligation=vacuous-count no-failing-input-found", ps.ID, path))
		rep.Violations++
	}
	return rep
}

func firstWords(s string) string {
	f := strings.Fields(s)
	if len(f) > 4 {
		f = f[:4]
	}
	return sanitize(strings.Join(f, "_"))
}

func round3(f float64) float64 { return float64(int(f*1000+0.5)) / 1000 }

func writeJSON(path string, v any) {
	data, _ := json.MarshalIndent(v, "", " ")
	_ = os.WriteFile(path, data, 0o644)
}

// writeReplay stores everything needed to re-examine a failed obligation and tries to turn the
// solver's model into a failing input for the real code.
func writeReplay(path, prop string, o *Obligation) string {
	rec := map[string]any{
		"property":   prop,
		"obligation": o.Name,
		"function":   o.Func,
		"kind":       o.Kind,
		"what":       o.Desc,
		"verdict":    o.Res.Verdict,
		"solver":     o.Res.Solver,
		"outputs":    o.Res.Outputs,
		"query":      o.Query,
	}
	suffix := "no-failing-input-found"
	if o.Res.Verdict == "sat" {
		rec["model"] = truncate(o.Res.Model, 20000)
	} else {
		rec["explanation"] = "no solver refuted the negated obligation within the time limit: the obligation is undischarged (it discharged on the unchanged tree)"
	}
	if rp := tryReplay(prop, o); rp != nil {
		rec["replay"] = rp
		if rp.Reproduced {
			suffix = "reproduced-on-real-code"
		}
	}
	writeJSON(path, rec)
	return suffix
}

func printReport(rep *Report, verbose bool) {
	if verbose {
		for _, o := range rep.Obls {
			mark := "ok  "
			if o.Verdict != "unsat" {
				mark = "FAIL"
				if o.Known {
					mark = "KNWN"
				}
			}
			fmt.Printf("  %s %-90s %-7s %-8s %.2fs  %s\n", mark, o.Name, o.Verdict, o.Solver, o.TimeS, truncate(o.Desc, 100))
		}
		for _, n := range rep.Notes {
			fmt.Println("  note:", n)
		}
	}
	for _, l := range rep.KnownHits {
		fmt.Println(l)
	}
	for _, l := range rep.ViolLines {
		fmt.Println(l)
	}
	for _, e := range rep.EngineErrs {
		fmt.Println("  engine error:", e)
	}
	for _, e := range rep.VacuityErrs {
		fmt.Println("  ", e)
	}
	fmt.Printf("%s %s: %d functions under contract, %d obligations claimed, %d discharged, %d known findings, %d violations; load %.1fs gen %.1fs solver %.1fs wall %.1fs\n",
		rep.Prop.ID, rep.Tier, len(rep.Funcs), rep.Claimed, rep.Discharged, rep.KnownFail, rep.Violations, rep.LoadS, rep.GenS, rep.SolverS, rep.WallS)
}

func writeEvidence(rep *Report) error {
	ps := rep.Prop
	var samples []any
	// a spread of samples: slowest, largest, and first few
	obls := append([]OblReport{}, rep.Obls...)
	sort.SliceStable(obls, func(i, j int) bool { return obls[i].TimeS > obls[j].TimeS })
	for i, o := range obls {
		if i >= 12 {
			break
		}
		samples = append(samples, o)
	}
	kinds := map[string]int{}
	for _, o := range rep.Obls {
		k := o.Kind
		if i := strings.Index(k, "."); i > 0 && (strings.HasPrefix(k, "safety") || strings.HasPrefix(k, "loop") || strings.HasPrefix(k, "call.pre") || strings.HasPrefix(k, "frame") || strings.HasPrefix(k, "monitor")) {
			if strings.HasPrefix(k, "call.pre") {
				k = "call.pre"
			} else if strings.HasPrefix(k, "frame") {
				k = "frame"
			}
		}
		kinds[k]++
	}
	trusted := []string{
		"gvc VC generator (this repository: /verif/engine) and its memory model (§2.2 DESIGN.md)",
		"golang.org/x/tools v0.29.0 go/ssa construction and go/types",
		"SMT solvers z3 4.8.12, z3 5.1.0 (z3-new), cvc5 1.0.3",
		"sequential Go semantics; goroutine interleavings only through monitor invariants",
		"machine limit: a slice whose element type has a non-zero size holds at most 2^48 elements (the Go runtime's maximal allocation on 64-bit platforms)",
	}
	for _, a := range rep.Assumed {
		trusted = append(trusted, a)
	}
	assumptions := append([]string{}, ps.Assumptions...)
	for _, n := range rep.Notes {
		assumptions = append(assumptions, "engine note: "+n)
	}
	for _, a := range rep.Assumed {
		assumptions = append(assumptions, a)
	}
	cov := map[string]any{
		"obligations":              rep.Claimed,
		"discharged":               rep.Discharged,
		"checker_cmd":              fmt.Sprintf("bin/gvc check %s --tier %s", ps.ID, rep.Tier),
		"trusted_base":             trusted,
		"samples":                  samples,
		"functions_under_contract": rep.Funcs,
		"backends":                 rep.Backends,
		"solver_time_s":            round3(rep.SolverS),
		"vcgen_time_s":             round3(rep.GenS),
		"load_time_s":              round3(rep.LoadS),
		"obligation_kinds":         kinds,
		"known_failing":            rep.KnownFail,
		"known_findings_reported":  rep.KnownHits,
		"not_decided":              ps.NotDecided,
		"vacuity_probes":           rep.VacuityN,
		"vacuity_failures":         rep.VacuityErrs,
		"bounded":                  []string{},
		"contract_files":           rep.Files,
		"integer_semantics":        "mathematical Int with explicit Go wrap-around per operation (no machine arithmetic treated as mathematical)",
		"engine_errors":            rep.EngineErrs,
	}
	for k, v := range rep.Extras {
		cov[k] = v
	}
	ev := map[string]any{
		"property_id": ps.ID,
		"tier":        rep.Tier,
		"seed":        envInt("VERIF_SEED", 0),
		"level":       "proof",
		"coverage":    cov,
		"assumptions": assumptions,
		"wall_s":      round3(rep.WallS),
		"violations":  rep.Violations,
	}
	_ = os.MkdirAll(filepath.Join(verifRoot, "evidence"), 0o755)
	data, err := json.MarshalIndent(ev, "", " ")
	if err != nil {
		return err
	}
	return os.WriteFile(filepath.Join(verifRoot, "evidence", ps.ID+".json"), data, 0o644)
}

// uniqueFileName: the sanitised obligation name, with a hash of the full name when it was truncated.
func uniqueFileName(name string) string {
	s := sanitize(name)
	if len(s) < len(sanRe.ReplaceAllString(name, "_")) {
		h := sha1.Sum([]byte(name))
		s = fmt.Sprintf("%s.%x", s, h[:4])
	}
	return s
}
