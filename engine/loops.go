package main

import (
	"fmt"
	"go/ast"
	"go/token"
	"go/types"
	"sort"
	"strings"

	"golang.org/x/tools/go/ssa"
)

// ModSet describes what a loop body or a callee may write.
type ModSet struct {
	all     bool
	heapAll map[string]bool         // whole heap (by heap name)
	fields  map[string]map[int]bool // heap name -> field ids of written cells (any base)
	elems   map[string]bool         // heap name -> any element cell
	locs    map[string][]Term       // heap name -> specific cells
	regions map[string][]string     // heap name -> predicates over bound variable "p" (SMT text)
	ghosts  map[string]bool
	alloc   bool
	// regionBases: base pointers of region-style targets (elems(s), region(p)), for checks
	regionBases []Term
	// map updates through a field whose holder is known before the havocked code
	deferredMaps []deferredMap
}

type deferredMap struct {
	fa     *ssa.FieldAddr
	dn, vn string
}

// loadedField: v is `*(&x.f)`.
func loadedField(v ssa.Value) *ssa.FieldAddr {
	if u, ok := v.(*ssa.UnOp); ok && u.Op == token.MUL {
		if fa, ok := u.X.(*ssa.FieldAddr); ok {
			return fa
		}
	}
	return nil
}

// resolveDeferredMaps turns the deferred map updates into precise locations when the field
// holding the map is not written by the havocked code, and into whole-heap havoc otherwise.
func (fr *Frame) resolveDeferredMaps(m *ModSet, st *State) {
	c := fr.c
	hp := heapName(SPtr)
	for _, d := range m.deferredMaps {
		stT := d.fa.X.Type().Underlying().(*types.Pointer).Elem()
		fid := c.V.fieldID(stT, d.fa.Field)
		stable := !m.all && !m.heapAll[hp] && !m.fields[hp][fid] && len(m.locs[hp]) == 0 && len(m.regions[hp]) == 0
		if stable {
			mt := stT.Underlying().(*types.Struct).Field(d.fa.Field).Type()
			mp := c.load(st, c.fieldPtr(fr.val(d.fa.X), stT, d.fa.Field), mt)
			m.locs[d.dn] = append(m.locs[d.dn], mp)
			m.locs[d.vn] = append(m.locs[d.vn], mp)
			m.locs["ML"] = append(m.locs["ML"], mp)
		} else {
			m.heapAll[d.dn] = true
			m.heapAll[d.vn] = true
			m.heapAll["ML"] = true
		}
	}
	m.deferredMaps = nil
}

func newModSet() *ModSet {
	return &ModSet{heapAll: map[string]bool{}, fields: map[string]map[int]bool{}, elems: map[string]bool{},
		locs: map[string][]Term{}, regions: map[string][]string{}, ghosts: map[string]bool{}}
}

func (m *ModSet) addField(hn string, fid int) {
	if m.fields[hn] == nil {
		m.fields[hn] = map[int]bool{}
	}
	m.fields[hn][fid] = true
}

func (m *ModSet) heapNames() []string {
	s := map[string]bool{}
	for k := range m.heapAll {
		s[k] = true
	}
	for k := range m.fields {
		s[k] = true
	}
	for k := range m.elems {
		s[k] = true
	}
	for k := range m.locs {
		s[k] = true
	}
	for k := range m.regions {
		s[k] = true
	}
	return sortedKeys(s)
}

// havoc applies a ModSet to a state, producing fresh heaps constrained by frame facts.
func (c *Ctx) havoc(st *State, m *ModSet, why string) {
	if len(c.immCells) > 0 {
		// variables held in cells that are assigned exactly once in their whole lexical family
		// (checked on the SSA) keep their content across any havoc
		before := map[string]Term{}
		for _, ic := range c.immCells {
			hn := heapName(ic.srt)
			if cur, ok := st.heaps[hn]; ok {
				before[hn] = cur
			} else {
				before[hn] = c.entryHeapByName(hn)
			}
		}
		defer func() {
			for _, ic := range c.immCells {
				hn := heapName(ic.srt)
				if now, ok := st.heaps[hn]; ok && now.S != before[hn].S {
					c.assume(eq(sel(now, ic.ptr, ic.srt), sel(before[hn], ic.ptr, ic.srt)))
				}
			}
		}()
	}
	if m.all {
		// everything the program can reach may have changed
		for _, hn := range sortedKeys(c.heapSort) {
			cur, ok := st.heaps[hn]
			if !ok {
				cur = c.entryHeapByName(hn)
			}
			nh := c.fresh(hn, cur.Sort)
			st.heaps[hn] = nh
			if strings.HasPrefix(hn, "H_") {
				defer func(nh Term, srt string) { c.wfHeap(nh, srt, st.alloc) }(nh, c.heapSort[hn])
			}
		}
		n := c.fresh("alloc", SInt)
		c.assume(app(SBool, ">=", n, st.alloc))
		st.alloc = n
		for g := range m.ghosts {
			st.ghosts[g] = c.fresh("g_"+g, c.ghostEntry(g).Sort)
		}
		c.note("havoc of all heaps (%s)", why)
		return
	}
	var wfLater [][2]Term
	defer func() {
		for _, w := range wfLater {
			c.wfHeap(w[0], w[1].S, st.alloc)
		}
	}()
	for _, hn := range m.heapNames() {
		cur, ok := st.heaps[hn]
		if !ok {
			cur = c.entryHeapByName(hn)
		}
		if !strings.HasPrefix(hn, "H_") {
			// map heaps are havocked wholesale (per map-sort family)
			if len(m.locs[hn]) > 0 && !m.heapAll[hn] {
				h := cur
				inner := arrayElemSort(cur.Sort)
				for _, l := range m.locs[hn] {
					h = sto(h, l, c.fresh("hv", inner))
				}
				n := c.fresh(hn, cur.Sort)
				c.assumeDef(eq(n, h))
				st.heaps[hn] = n
				continue
			}
			st.heaps[hn] = c.fresh(hn, cur.Sort)
			continue
		}
		es := c.heapSort[hn]
		// Allocation inside the havocked code needs no frame clause: cells of objects that did
		// not exist before are unconstrained in the pre-heap already (facts about fresh cells
		// are only ever added, guarded, for the object at the current allocation counter).
		onlyLocs := !m.heapAll[hn] && len(m.fields[hn]) == 0 && !m.elems[hn] && len(m.regions[hn]) == 0
		if onlyLocs {
			h := cur
			for _, l := range m.locs[hn] {
				v := c.fresh("hv", es)
				h = sto(h, l, v)
			}
			n := c.fresh(hn, cur.Sort)
			c.assumeDef(eq(n, h))
			st.heaps[hn] = n
			continue
		}
		n := c.fresh(hn, cur.Sort)
		st.heaps[hn] = n
		wfLater = append(wfLater, [2]Term{n, {es, ""}})
		if m.heapAll[hn] {
			continue
		}
		// frame: cells outside the write set keep their value
		var mods []string
		if fs := m.fields[hn]; len(fs) > 0 {
			var ids []int
			for id := range fs {
				ids = append(ids, id)
			}
			sort.Ints(ids)
			var alts []string
			for _, id := range ids {
				alts = append(alts, fmt.Sprintf("(= (pfid p) %d)", id))
			}
			mods = append(mods, fmt.Sprintf("(and ((_ is pfld) p) (or %s false))", strings.Join(alts, " ")))
		}
		if m.elems[hn] {
			mods = append(mods, "((_ is pelem) p)")
		}
		for _, l := range m.locs[hn] {
			mods = append(mods, fmt.Sprintf("(= p %s)", l.S))
		}
		mods = append(mods, m.regions[hn]...)
		c.assume(Term{fmt.Sprintf("(forall ((p Ptr)) (! (=> (not (or %s false)) (= (select %s p) (select %s p))) :pattern ((select %s p))))",
			strings.Join(mods, " "), n.S, cur.S, n.S), SBool})
	}
	if m.alloc {
		n := c.fresh("alloc", SInt)
		c.assume(app(SBool, ">=", n, st.alloc))
		st.alloc = n
	}
	for _, g := range sortedKeys(m.ghosts) {
		st.ghosts[g] = c.fresh("g_"+g, c.ghostEntry(g).Sort)
	}
}

// ---- write-set inference for loops ---------------------------------------------------------

// collectWrites scans the instructions of the given blocks. defined reports whether an SSA
// value has a term available at the havoc point (defined before the loop).
func (fr *Frame) collectWrites(blocks []*ssa.BasicBlock, m *ModSet, avail func(ssa.Value) bool, depth int, seen map[*ssa.Function]bool) {
	c := fr.c
	for _, b := range blocks {
		for _, ins := range b.Instrs {
			switch x := ins.(type) {
			case *ssa.Store:
				fr.addWrite(m, x.Addr, x.Val.Type(), avail)
			case *ssa.Alloc:
				m.alloc = true
			case *ssa.MakeSlice, *ssa.MakeMap, *ssa.MakeChan:
				m.alloc = true
				if mm, ok := ins.(*ssa.MakeMap); ok {
					mt := mm.Type().Underlying().(*types.Map)
					dn, df := c.mapDomName(mt)
					c.heapSort[dn] = df
					m.heapAll[dn] = true
					c.heapSort["ML"] = "(Array Ptr Int)"
					m.heapAll["ML"] = true
				}
			case *ssa.MakeClosure, *ssa.MakeInterface:
			case *ssa.Convert:
				if c.sortOf(x.X.Type()) == SStr && c.sortOf(x.Type()) == SSlice {
					m.alloc = true
				}
			case *ssa.MapUpdate:
				mt := x.Map.Type().Underlying().(*types.Map)
				dn, df := c.mapDomName(mt)
				vn, vf := c.mapValName(mt)
				c.heapSort[dn] = df
				c.heapSort[vn] = vf
				c.heapSort["ML"] = "(Array Ptr Int)"
				if avail(x.Map) && depth == 0 {
					// the map written is fixed before the havocked code starts: only its cells
					mp := fr.val(x.Map)
					m.locs[dn] = append(m.locs[dn], mp)
					m.locs[vn] = append(m.locs[vn], mp)
					m.locs["ML"] = append(m.locs["ML"], mp)
				} else if fa := loadedField(x.Map); fa != nil && depth == 0 && avail(fa.X) {
					// the map is read from a field of an object known before the havocked code:
					// precise if that field is not itself written there (decided afterwards)
					m.deferredMaps = append(m.deferredMaps, deferredMap{fa: fa, dn: dn, vn: vn})
				} else {
					m.heapAll[dn] = true
					m.heapAll[vn] = true
					m.heapAll["ML"] = true
				}
			case *ssa.Range:
				m.alloc = true
			case *ssa.Next:
				if it := fr.iters[x.Iter]; it != nil {
					hn := heapName(SInt)
					c.heapSort[hn] = SInt
					m.locs[hn] = append(m.locs[hn], it.cursor)
				} else {
					m.heapAll[heapName(SInt)] = true
				}
			case *ssa.Select:
				m.ghosts["select"] = true
			case *ssa.Go:
				// spawned code runs outside the sequential model
			case *ssa.Defer:
				unsupp("defer inside a loop")
			case ssa.CallInstruction:
				fr.callWrites(x, m, avail, depth, seen)
			}
		}
	}
}

func (fr *Frame) addWrite(m *ModSet, addr ssa.Value, vt types.Type, avail func(ssa.Value) bool) {
	c := fr.c
	// a store into an object allocated inside the havocked code: the object does not exist at
	// the havoc point, nothing to forget
	if root := rootValue(addr); isAllocation(root) && !avail(root) {
		m.alloc = true
		return
	}
	for _, lp := range c.leafPaths(vt) {
		srt := c.sortOf(lp.t)
		hn := heapName(srt)
		c.heapSort[hn] = srt
		// shape of the leaf pointer: the last path component decides
		if len(lp.steps) > 0 {
			if fid, isF := lp.lastFieldID(); isF {
				m.addField(hn, fid)
			} else {
				m.elems[hn] = true
			}
			continue
		}
		switch a := addr.(type) {
		case *ssa.FieldAddr:
			st := a.X.Type().Underlying().(*types.Pointer).Elem()
			if avail(a.X) {
				// the base object is known at the havoc point: exactly this cell
				m.locs[hn] = append(m.locs[hn], c.fieldPtr(fr.val(a.X), st, a.Field))
			} else {
				m.addField(hn, c.V.fieldID(st, a.Field))
			}
		case *ssa.IndexAddr:
			m.elems[hn] = true
		default:
			if avail(addr) {
				m.locs[hn] = append(m.locs[hn], fr.val(addr))
			} else if _, isAlloc := addr.(*ssa.Alloc); isAlloc {
				// allocated inside the loop: covered by the allocation clause
				m.alloc = true
			} else {
				m.heapAll[hn] = true
			}
		}
	}
}

// callWrites adds the effects of a call inside a loop (or inlined body).
func (fr *Frame) callWrites(x ssa.CallInstruction, m *ModSet, avail func(ssa.Value) bool, depth int, seen map[*ssa.Function]bool) {
	c := fr.c
	cc := x.Common()
	if b, ok := cc.Value.(*ssa.Builtin); ok {
		switch b.Name() {
		case "append", "copy":
			var et types.Type
			if sl, ok := cc.Args[0].Type().Underlying().(*types.Slice); ok {
				et = sl.Elem()
			}
			if et == nil {
				m.all = true
				return
			}
			for _, lp := range c.leafPaths(et) {
				srt := c.sortOf(lp.t)
				hn := heapName(srt)
				c.heapSort[hn] = srt
				if fid, isF := lp.lastFieldID(); isF {
					m.addField(hn, fid)
				} else {
					m.elems[hn] = true
				}
			}
			if b.Name() == "append" {
				m.alloc = true
			}
		case "delete", "clear":
			if mt, ok := cc.Args[0].Type().Underlying().(*types.Map); ok {
				dn, df := c.mapDomName(mt)
				c.heapSort[dn] = df
				c.heapSort["ML"] = "(Array Ptr Int)"
				m.heapAll[dn] = true
				m.heapAll["ML"] = true
			} else {
				m.all = true
			}
		case "close":
			m.ghosts["closed"] = true
		}
		return
	}
	res := fr.resolveCallee(cc)
	// ghost-at anchors of the function under verification that hang on this call
	if top := fr.topFrame(); top.fc != nil {
		for _, g := range top.fc.GhostAts {
			if g.Callee != "" && calleeMatches(res, g.Callee) {
				m.ghosts[g.Var] = true
			}
		}
	}
	if res.fc != nil && !res.fc.Inline {
		fr.contractWritesAt(res, cc, m, avail, depth)
		return
	}
	if res.pure {
		return
	}
	if res.fn != nil && res.fn.Blocks != nil && depth < 6 && !seen[res.fn] {
		seen[res.fn] = true
		// inlined body: its own stores; values inside are never "available"
		fr.collectWrites(res.fn.Blocks, m, func(ssa.Value) bool { return false }, depth+1, seen)
		delete(seen, res.fn)
		return
	}
	fr.c.note("call of %s inside a loop/inlined body has no contract: loop havocs all heaps", shortKey(res.key))
	m.all = true
}

// rootValue follows address/interface derivations back to the value they are derived from.
func rootValue(v ssa.Value) ssa.Value {
	for {
		switch x := v.(type) {
		case *ssa.MakeInterface:
			v = x.X
		case *ssa.ChangeInterface:
			v = x.X
		case *ssa.ChangeType:
			v = x.X
		case *ssa.FieldAddr:
			v = x.X
		case *ssa.IndexAddr:
			v = x.X
		case *ssa.Slice:
			v = x.X
		case *ssa.Convert:
			v = x.X
		default:
			return v
		}
	}
}

func isAllocation(v ssa.Value) bool {
	switch v.(type) {
	case *ssa.Alloc, *ssa.MakeSlice, *ssa.MakeMap, *ssa.MakeChan:
		return true
	}
	return false
}

// rootParam finds the parameter name a modifies clause hangs on.
func rootParam(e Expr) string {
	switch x := e.(type) {
	case EIdent:
		return x.Name
	case ESel:
		return rootParam(x.X)
	case EDeref:
		return rootParam(x.X)
	case EIndex:
		return rootParam(x.X)
	case ECall:
		if len(x.Args) > 0 {
			return rootParam(x.Args[0])
		}
	}
	return ""
}

// contractWritesAt over-approximates the effect of a call by contract inside a loop: targets
// rooted in objects allocated inside the loop need no havoc at the header (they do not exist
// yet); targets that are available at the header are havocked precisely; the rest by type.
func (fr *Frame) contractWritesAt(ci *calleeInfo, cc *ssa.CallCommon, m *ModSet, avail func(ssa.Value) bool, depth int) {
	fc := ci.fc
	if fc.ModAll {
		fr.c.note("callee %s modifies everything: loop havocs all heaps", shortKey(fc.Key))
		m.all = true
		return
	}
	if !fc.Pure {
		m.alloc = true
	}
	for _, g := range fc.GhostAts {
		m.ghosts[g.Var] = true
	}
	_, names := fr.c.V.signatureOf(fc)
	var actuals []ssa.Value
	if cc.IsInvoke() {
		actuals = append(actuals, cc.Value)
	}
	actuals = append(actuals, cc.Args...)
	for _, cl := range fc.Modifies {
		if g, ok := cl.E.(EGhost); ok {
			m.ghosts[g.Name] = true
			continue
		}
		rp := rootParam(cl.E)
		var actual ssa.Value
		for i, n := range names {
			if n == rp && i < len(actuals) {
				actual = actuals[i]
			}
		}
		if actual != nil {
			root := rootValue(actual)
			if isAllocation(root) && !avail(root) {
				m.alloc = true // fresh object of this iteration
				continue
			}
			if avail(root) && avail(actual) && depth == 0 {
				// precise: evaluate the clause with the actual's term
				if fr.preciseClauseAt(fc, cl, names, actuals, avail, m) {
					continue
				}
			}
		}
		before := m.all
		fr.modClauseCoarse(fc, cl.E, m)
		if m.all && !before {
			fr.c.note("modifies clause %q of %s could not be localised: loop havocs all heaps", cl.Src, shortKey(fc.Key))
		}
	}
}

// preciseClauseAt evaluates one modifies clause with the terms of the actual arguments that
// are available at the loop header (others are bound to an unusable placeholder).
func (fr *Frame) preciseClauseAt(fc *FuncContract, cl Clause, names []string, actuals []ssa.Value, avail func(ssa.Value) bool, m *ModSet) (ok bool) {
	defer func() {
		if r := recover(); r != nil {
			ok = false
		}
	}()
	env := &Env{c: fr.c, pkg: fr.c.V.pkgOfKey(fc.Key), vars: map[string]Binding{}, st: fr.st}
	if dp := fr.c.V.P.ByPath[fc.DeclPkg]; dp != nil {
		env.pkg = dp.Types
	}
	sig, _ := fr.c.V.signatureOf(fc)
	for i, a := range actuals {
		if i >= len(names) || !avail(a) {
			continue
		}
		var ty types.Type = a.Type()
		if sig != nil {
			if pt := paramType(sig, i); pt != nil {
				if _, isTP := pt.(*types.TypeParam); !isTP {
					ty = pt
				}
			}
		}
		env.vars[names[i]] = Binding{fr.val(a), ty}
	}
	tmp := &FuncContract{Key: fc.Key, Modifies: []Clause{cl}, Loops: map[int]*LoopContract{}}
	pm := fr.preciseModSet(tmp, env)
	if pm.all {
		return false
	}
	for hn, ls := range pm.locs {
		m.locs[hn] = append(m.locs[hn], ls...)
	}
	for hn, rs := range pm.regions {
		m.regions[hn] = append(m.regions[hn], rs...)
	}
	for hn := range pm.heapAll {
		m.heapAll[hn] = true
	}
	for g := range pm.ghosts {
		m.ghosts[g] = true
	}
	return true
}

// contractWrites over-approximates a callee's modifies clause syntactically.
func (fr *Frame) contractWrites(fc *FuncContract, m *ModSet) {
	if fc.ModAll {
		m.all = true
		return
	}
	if fc.Fresh {
		m.alloc = true
	}
	for _, cl := range fc.Modifies {
		fr.modClauseCoarse(fc, cl.E, m)
	}
	for _, g := range fc.GhostAts {
		m.ghosts[g.Var] = true
	}
}

func (fr *Frame) modClauseCoarse(fc *FuncContract, e Expr, m *ModSet) {
	c := fr.c
	switch x := e.(type) {
	case EGhost:
		m.ghosts[x.Name] = true
	case EIdent:
		if x.Name == "alloc" {
			m.alloc = true
			return
		}
		unsuppContract(fc, "modifies %s: not a location", x.Name)
	case ESel:
		// T.f / pkg.T.f
		tenv := &Env{c: c, pkg: c.V.pkgOfKey(fc.Key), vars: map[string]Binding{}}
		if dp := c.V.P.ByPath[fc.DeclPkg]; dp != nil {
			tenv.pkg = dp.Types
		}
		_, pnames := c.V.signatureOf(fc)
		for _, n := range pnames {
			tenv.vars[n] = Binding{}
		}
		if tn := typeNameOf(x.X, tenv); tn != nil {
			if ts, ok := tn.Type().Underlying().(*types.Struct); ok {
				if p2, ft2 := findField(ts, x.Name); len(p2) == 1 {
					for _, lp := range c.leafPaths(ft2) {
						srt := c.sortOf(lp.t)
						hn := heapName(srt)
						c.heapSort[hn] = srt
						if len(lp.steps) == 0 {
							m.addField(hn, c.V.fieldID(tn.Type(), p2[0]))
						} else if fid, isF := lp.lastFieldID(); isF {
							m.addField(hn, fid)
						} else {
							m.elems[hn] = true
						}
					}
					return
				}
			}
		}
		// x.f : need the static type of x: resolve through the callee signature
		ft, st, idx := fr.calleeFieldType(fc, x)
		if ft == nil {
			m.all = true
			return
		}
		for _, lp := range c.leafPaths(ft) {
			srt := c.sortOf(lp.t)
			hn := heapName(srt)
			c.heapSort[hn] = srt
			if len(lp.steps) == 0 {
				m.addField(hn, c.V.fieldID(st, idx))
			} else if fid, isF := lp.lastFieldID(); isF {
				m.addField(hn, fid)
			} else {
				m.elems[hn] = true
			}
		}
	case ECall:
		switch x.Fun {
		case "heap":
			// heap(sort): entire heap of a leaf sort
			if id, ok := x.Args[0].(EIdent); ok {
				_, srt := c.resolveType(id.Name, nil)
				hn := heapName(srt)
				c.heapSort[hn] = srt
				m.heapAll[hn] = true
				return
			}
		case "elems", "elemrange":
			// element cells of a slice parameter: by element type
			if len(x.Args) > 0 {
				if id, ok := x.Args[0].(EIdent); ok {
					sig, names := fr.c.V.signatureOf(fc)
					for i, n := range names {
						if n != id.Name || sig == nil {
							continue
						}
						if sl, ok := paramType(sig, i).Underlying().(*types.Slice); ok {
							for _, lp := range c.leafPaths(sl.Elem()) {
								srt := c.sortOf(lp.t)
								hn := heapName(srt)
								c.heapSort[hn] = srt
								if fid, isF := lp.lastFieldID(); isF {
									m.addField(hn, fid)
								} else {
									m.elems[hn] = true
								}
							}
							return
						}
					}
				}
			}
			m.all = true
			return
		case "mapof", "fieldsof":
			m.all = true
			return
		}
		m.all = true
	case EDeref, EIndex:
		m.all = true
	default:
		m.all = true
	}
}

func unsuppContract(fc *FuncContract, format string, a ...any) {
	panic(evalError{fmt.Sprintf("%s:%d: ", fc.File, fc.Line) + fmt.Sprintf(format, a...)})
}

// calleeFieldType resolves the type of the field named by a `modifies x.f` clause using the
// callee's signature (parameter and receiver names).
func (fr *Frame) calleeFieldType(fc *FuncContract, s ESel) (types.Type, types.Type, int) {
	sig, names := fr.c.V.signatureOf(fc)
	if sig == nil {
		return nil, nil, 0
	}
	var baseT types.Type
	switch b := s.X.(type) {
	case EIdent:
		for i, n := range names {
			if n == b.Name {
				baseT = paramType(sig, i)
			}
		}
	case ESel:
		ft, _, _ := fr.calleeFieldType(fc, b)
		baseT = ft
	}
	if baseT == nil {
		return nil, nil, 0
	}
	if p, ok := baseT.Underlying().(*types.Pointer); ok {
		baseT = p.Elem()
	}
	st, ok := baseT.Underlying().(*types.Struct)
	if !ok {
		return nil, nil, 0
	}
	path, ft := findField(st, s.Name)
	if len(path) != 1 {
		return nil, nil, 0
	}
	return ft, baseT, path[0]
}

func paramType(sig *types.Signature, i int) types.Type {
	if sig.Recv() != nil {
		if i == 0 {
			return sig.Recv().Type()
		}
		i--
	}
	if i < sig.Params().Len() {
		return sig.Params().At(i).Type()
	}
	return nil
}

// ---- loop entry / back edges ---------------------------------------------------------------

func (fr *Frame) loopBlocks(li *loopInfo) []*ssa.BasicBlock {
	var out []*ssa.BasicBlock
	for _, b := range fr.fn.Blocks {
		if li.body[b.Index] {
			out = append(out, b)
		}
	}
	return out
}

func (fr *Frame) enterLoop(li *loopInfo, phiEntry map[*ssa.Phi]Term) {
	c := fr.c
	hdr := li.header
	kprefix := fmt.Sprintf("loop[%d]", li.ordinal)
	// automatic invariants from phi shapes
	li.autoInv = fr.autoInvariants(li)
	// 1. invariants hold on entry
	envEntry := fr.loopEnv(li, func(p *ssa.Phi) (Term, bool) { v, ok := phiEntry[p]; return v, ok }, fr.st)
	if li.lc != nil {
		for _, ea := range li.lc.Entry {
			t, err := envEntry.evalBool(ea.E)
			if err != nil {
				panic(evalError{fmt.Sprintf("%s %s entry: %v", shortKey(funcKey(fr.fn)), kprefix, err)})
			}
			fr.oblige(kprefix+".entry", ea.Label, t, hdr.Instrs[0].Pos(), "holds when the loop is reached: "+ea.Src)
		}
	}
	if li.lc != nil {
		for _, inv := range li.lc.Invariants {
			t, err := envEntry.evalBool(inv.E)
			if err != nil {
				panic(evalError{fmt.Sprintf("%s %s invariant: %v", shortKey(funcKey(fr.fn)), kprefix, err)})
			}
			fr.oblige(kprefix+".inv.entry", inv.Label, t, hdr.Instrs[0].Pos(), "invariant holds on loop entry: "+inv.Src)
		}
	}
	for _, ai := range li.autoInv {
		t, desc := ai(func(p *ssa.Phi) Term { return phiEntry[p] })
		fr.oblige(kprefix+".auto.entry", "", t, token.NoPos, desc)
	}
	// 2. havoc what the loop writes
	m := newModSet()
	blocks := fr.loopBlocks(li)
	avail := func(v ssa.Value) bool {
		switch v.(type) {
		case *ssa.Const, *ssa.Global, *ssa.Function, *ssa.Parameter, *ssa.FreeVar:
			return true
		}
		if ins, ok := v.(ssa.Instruction); ok {
			if ins.Block() != nil && !li.body[ins.Block().Index] {
				_, has := fr.vals[v]
				return has
			}
		}
		return false
	}
	fr.collectWrites(blocks, m, avail, 0, map[*ssa.Function]bool{})
	fr.resolveDeferredMaps(m, fr.st)
	if li.lc != nil {
		for _, cl := range li.lc.Modifies {
			if g, ok := cl.E.(EGhost); ok {
				m.ghosts[g.Name] = true
			}
		}
	}
	st := fr.st.clone()
	if li.lc != nil && li.lc.LocalOnly {
		// all leaf heaps are havocked, framed for every cell that existed at function entry
		for _, hn := range sortedKeys(c.heapSort) {
			if !strings.HasPrefix(hn, "H_") {
				continue
			}
			cur, ok := st.heaps[hn]
			if !ok {
				cur = c.entryHeapByName(hn)
			}
			n := c.fresh(hn, cur.Sort)
			st.heaps[hn] = n
			c.assume(Term{fmt.Sprintf("(forall ((p Ptr)) (! (=> (< (rootid p) alloc@0) (= (select %s p) (select %s p))) :pattern ((select %s p))))", n.S, cur.S, n.S), SBool})
			c.wfHeap(n, c.heapSort[hn], st.alloc)
		}
		m2 := newModSet()
		m2.ghosts = m.ghosts
		m2.alloc = true
		for hn := range m.heapAll {
			if !strings.HasPrefix(hn, "H_") {
				m2.heapAll[hn] = true
			}
		}
		for hn, ls := range m.locs {
			if !strings.HasPrefix(hn, "H_") {
				m2.locs[hn] = ls
			}
		}
		m2.all = false
		c.havoc(st, m2, kprefix)
	} else {
		c.havoc(st, m, fmt.Sprintf("%s of %s", kprefix, shortKey(funcKey(fr.fn))))
	}
	fr.st = st
	// 3. fresh phis
	li.phiFresh = map[*ssa.Phi]Term{}
	for _, ins := range hdr.Instrs {
		phi, ok := ins.(*ssa.Phi)
		if !ok {
			break
		}
		v := c.fresh("lphi_"+phi.Comment, c.sortOf(phi.Type()))
		c.assumeTypeInv(v, phi.Type(), fr.st)
		li.phiFresh[phi] = v
		fr.vals[phi] = v
	}
	// 4. assume invariants for an arbitrary iteration
	envHdr := fr.loopEnv(li, func(p *ssa.Phi) (Term, bool) { v, ok := li.phiFresh[p]; return v, ok }, fr.st)
	if li.lc != nil {
		for _, inv := range li.lc.Invariants {
			c.assume(implies(fr.reach, envHdr.mustBool(inv.E)))
		}
		for _, d := range li.lc.Decreases {
			li.decEntry = append(li.decEntry, envHdr.eval(d.E).T)
		}
	}
	for _, ai := range li.autoInv {
		t, _ := ai(func(p *ssa.Phi) Term { return li.phiFresh[p] })
		c.assume(implies(fr.reach, t))
	}
	li.stHeader = fr.st.clone()
}

func (fr *Frame) checkBackEdge(from, hdr *ssa.BasicBlock) {
	li := fr.loops[hdr.Index]
	kprefix := fmt.Sprintf("loop[%d]", li.ordinal)
	predIdx := -1
	for i, p := range hdr.Preds {
		if p == from {
			predIdx = i
		}
	}
	saveReach := fr.reach
	fr.reach = fr.edgeGuardSucc(from, hdr, predIdx)
	defer func() { fr.reach = saveReach }()
	st := fr.blockOut[from.Index]
	get := func(p *ssa.Phi) (Term, bool) {
		if p.Block() != hdr {
			return Term{}, false
		}
		return fr.val(p.Edges[predIdx]), true
	}
	env := fr.loopEnv(li, get, st)
	if li.lc != nil {
		for _, inv := range li.lc.Invariants {
			t, err := env.evalBool(inv.E)
			if err != nil {
				panic(err)
			}
			fr.oblige(kprefix+".inv.step", inv.Label, t, from.Instrs[len(from.Instrs)-1].Pos(), "invariant preserved by loop body: "+inv.Src)
		}
		for i, d := range li.lc.Decreases {
			now := env.eval(d.E).T
			before := li.decEntry[i]
			fr.oblige(kprefix+".decreases", d.Label, Term{fmt.Sprintf("(and (<= 0 %s) (< %s %s))", before.S, now.S, before.S), SBool}, token.NoPos, "loop measure decreases and is bounded below: "+d.Src)
		}
	}
	for _, ai := range li.autoInv {
		t, desc := ai(func(p *ssa.Phi) Term { v, _ := get(p); return v })
		fr.oblige(kprefix+".auto.step", "", t, token.NoPos, desc)
	}
}

// autoInvariants derives candidate invariants from header phis of the shape
// phi(c, phi+k): monotone counters keep their initial bound.
func (fr *Frame) autoInvariants(li *loopInfo) []func(get func(*ssa.Phi) Term) (Term, string) {
	var out []func(get func(*ssa.Phi) Term) (Term, string)
	if fr.fc != nil && fr.fc.NoAuto && fr.parent == nil {
		return nil
	}
	hdr := li.header
	for _, ins := range hdr.Instrs {
		phi, ok := ins.(*ssa.Phi)
		if !ok {
			break
		}
		if _, isInt := intInfoOf(phi.Type()); !isInt {
			continue
		}
		if fr.c.V.disabledAuto[autoKey(fr.fn, li.ordinal, phi.Comment)] {
			continue
		}
		var entryConst *ssa.Const
		dir := 0
		okShape := true
		for i, e := range phi.Edges {
			p := hdr.Preds[i]
			if !fr.isBackEdge(p, hdr) {
				if k, ok := e.(*ssa.Const); ok && (entryConst == nil || entryConst.Value.ExactString() == k.Value.ExactString()) {
					entryConst = k
				} else {
					okShape = false
				}
				continue
			}
			bo, ok := e.(*ssa.BinOp)
			if !ok || bo.X != ssa.Value(phi) {
				okShape = false
				continue
			}
			k, ok := bo.Y.(*ssa.Const)
			if !ok || k.Value == nil {
				okShape = false
				continue
			}
			pos := !strings.HasPrefix(k.Value.ExactString(), "-")
			d := 0
			if bo.Op == token.ADD && pos || bo.Op == token.SUB && !pos {
				d = 1
			} else if bo.Op == token.SUB && pos || bo.Op == token.ADD && !pos {
				d = -1
			} else {
				okShape = false
			}
			if dir != 0 && d != dir {
				okShape = false
			}
			dir = d
		}
		// bounds taken from comparisons in the header: phi (or phi+k) compared with a value
		// defined outside the loop yields the candidates phi < X and phi <= X (or > / >=)
		for _, hi := range hdr.Instrs {
			cmp, ok := hi.(*ssa.BinOp)
			if !ok {
				continue
			}
			var other ssa.Value
			less := false
			isPhiish := func(v ssa.Value) bool {
				if v == ssa.Value(phi) {
					return true
				}
				if bo, ok := v.(*ssa.BinOp); ok && bo.Block() == hdr && bo.X == ssa.Value(phi) {
					if _, isC := bo.Y.(*ssa.Const); isC && (bo.Op == token.ADD || bo.Op == token.SUB) {
						return true
					}
				}
				return false
			}
			switch cmp.Op {
			case token.LSS, token.LEQ:
				if isPhiish(cmp.X) {
					other, less = cmp.Y, true
				} else if isPhiish(cmp.Y) {
					other, less = cmp.X, false
				}
			case token.GTR, token.GEQ:
				if isPhiish(cmp.X) {
					other, less = cmp.Y, false
				} else if isPhiish(cmp.Y) {
					other, less = cmp.X, true
				}
			}
			if other == nil {
				continue
			}
			if oi, isIns := other.(ssa.Instruction); isIns && oi.Block() != nil && li.body[oi.Block().Index] {
				continue
			}
			if _, isInt := intInfoOf(other.Type()); !isInt {
				continue
			}
			ph, ot := phi, other
			for _, strict := range []bool{true, false} {
				strict := strict
				op := map[[2]bool]string{{true, true}: "<", {true, false}: "<=", {false, true}: ">", {false, false}: ">="}[[2]bool{less, strict}]
				key := autoKey(fr.fn, li.ordinal, ph.Comment+op+ot.Name())
				if fr.c.V.disabledAuto[key] {
					continue
				}
				out = append(out, func(get func(*ssa.Phi) Term) (Term, string) {
					x, ok := fr.tryVal(ot)
					if !ok {
						return tTrue, "auto[" + key + "]"
					}
					return app(SBool, op, get(ph), x), fmt.Sprintf("auto[%s] %s %s %s bound from the loop condition", key, ph.Comment, op, ot.Name())
				})
			}
		}
		if !okShape || entryConst == nil || dir == 0 {
			continue
		}
		ph := phi
		c0 := fr.constVal(entryConst)
		if dir > 0 {
			out = append(out, func(get func(*ssa.Phi) Term) (Term, string) {
				return app(SBool, ">=", get(ph), c0), fmt.Sprintf("auto[%s] counter %s never below its initial value", autoKey(fr.fn, li.ordinal, ph.Comment), ph.Comment)
			})
		} else {
			out = append(out, func(get func(*ssa.Phi) Term) (Term, string) {
				return app(SBool, "<=", get(ph), c0), fmt.Sprintf("auto[%s] counter %s never above its initial value", autoKey(fr.fn, li.ordinal, ph.Comment), ph.Comment)
			})
		}
	}
	return out
}

// loopEnv builds the evaluation environment for invariants of a loop: source-level locals
// resolve to header phis (through get) or to their dominating definition.
func (fr *Frame) loopEnv(li *loopInfo, get func(*ssa.Phi) (Term, bool), st *State) *Env {
	env := fr.baseEnv(st)
	hdr := li.header
	env.local = func(name string) (Binding, bool) {
		return fr.lookupLocalAt(name, hdr, get, st)
	}
	return env
}

// lookupLocalAt finds the value of source variable `name` at the entry of block b.
func (fr *Frame) lookupLocalAt(name string, b *ssa.BasicBlock, get func(*ssa.Phi) (Term, bool), st *State) (Binding, bool) {
	c := fr.c
	// phis of this block first
	for blk := b; blk != nil; blk = blk.Idom() {
		isStart := blk == b
		// scan debug refs in reverse (only for dominating blocks, i.e. not b itself: b's
		// instructions execute after its entry)
		if !isStart {
			for i := len(blk.Instrs) - 1; i >= 0; i-- {
				if dr, ok := blk.Instrs[i].(*ssa.DebugRef); ok {
					if id := debugRefName(dr); id == name {
						if dr.IsAddr {
							pt, ok := dr.X.Type().Underlying().(*types.Pointer)
							if !ok {
								continue
							}
							if _, has := fr.vals[dr.X]; !has {
								continue
							}
							return Binding{c.load(st, fr.val(dr.X), pt.Elem()), pt.Elem()}, true
						}
						if v := fr.defPlaceholder(dr); v != nil {
							// `x := T{...}` / `x := make(...)`: go/ssa records the definition of
							// x with a nil placeholder; the value is that of the right-hand side
							if t, ok := fr.tryVal(v); ok {
								return Binding{t, v.Type()}, true
							}
							continue
						}
						if b, ok := fr.cellVarNow(dr, st); ok {
							return b, true
						}
						if t, ok := fr.tryVal(dr.X); ok {
							return Binding{t, dr.X.Type()}, true
						}
					}
				}
			}
		}
		for _, ins := range blk.Instrs {
			phi, ok := ins.(*ssa.Phi)
			if !ok {
				break
			}
			if phi.Comment == name {
				if get != nil {
					if t, ok := get(phi); ok {
						return Binding{t, phi.Type()}, true
					}
				}
				if t, ok := fr.tryVal(phi); ok {
					return Binding{t, phi.Type()}, true
				}
			}
		}
	}
	// parameters (never reassigned, otherwise a phi or debug ref would have matched)
	for i, p := range fr.fn.Params {
		if p.Name() == name {
			return Binding{fr.params[i], p.Type()}, true
		}
	}
	for i, fv := range fr.fn.FreeVars {
		if fv.Name() == name {
			pt := fv.Type().Underlying().(*types.Pointer)
			return Binding{c.load(st, fr.freeVars[i], pt.Elem()), pt.Elem()}, true
		}
	}
	return Binding{}, false
}

// defPlaceholder: for the debug ref of the defining identifier of `x := <composite literal>`
// whose recorded value is a nil constant, the value debug-referenced for the right-hand side.
func (fr *Frame) defPlaceholder(dr *ssa.DebugRef) ssa.Value {
	cst, ok := dr.X.(*ssa.Const)
	if !ok || cst.Value != nil {
		return nil
	}
	id, ok := dr.Expr.(*ast.Ident)
	obj := dr.Object()
	if !ok || obj == nil || id.Pos() != obj.Pos() {
		return nil
	}
	syn := fr.fn.Syntax()
	for f := fr.fn; syn == nil && f != nil; f = f.Parent() {
		syn = f.Syntax()
	}
	if syn == nil {
		return nil
	}
	var rhs ast.Expr
	ast.Inspect(syn, func(n ast.Node) bool {
		if as, ok := n.(*ast.AssignStmt); ok && len(as.Lhs) == len(as.Rhs) {
			for i, l := range as.Lhs {
				if l == ast.Expr(id) {
					rhs = as.Rhs[i]
				}
			}
		}
		if vs, ok := n.(*ast.ValueSpec); ok && len(vs.Names) == len(vs.Values) {
			for i, l := range vs.Names {
				if l == id {
					rhs = vs.Values[i]
				}
			}
		}
		return rhs == nil
	})
	if rhs == nil {
		return nil
	}
	rhs = ast.Unparen(rhs)
	for _, b := range fr.fn.Blocks {
		for _, ins := range b.Instrs {
			if d2, ok := ins.(*ssa.DebugRef); ok && !d2.IsAddr && d2.Expr == rhs {
				return d2.X
			}
		}
	}
	return nil
}

func (fr *Frame) tryVal(v ssa.Value) (t Term, ok bool) {
	defer func() {
		if r := recover(); r != nil {
			if _, is := r.(unsupported); is {
				ok = false
				return
			}
			panic(r)
		}
	}()
	return fr.val(v), true
}

func debugRefName(dr *ssa.DebugRef) string {
	if obj := dr.Object(); obj != nil {
		// only local variables and parameters: a field selector x.f also yields a debug ref
		// for the identifier f, which must not shadow a local of the same name
		if v, ok := obj.(*types.Var); ok && !v.IsField() {
			return obj.Name()
		}
	}
	return ""
}

func autoKey(fn *ssa.Function, loop int, name string) string {
	return fmt.Sprintf("%s|%d|%s", funcKey(fn), loop, name)
}

// ---- cells of variables that are assigned once ------------------------------------------------

type immCell struct {
	ptr Term
	srt string
}

// cellRoot follows a captured variable to the Alloc that holds it and the function owning it.
func cellRoot(fn *ssa.Function, v ssa.Value) (*ssa.Function, *ssa.Alloc) {
	for depth := 0; depth < 16; depth++ {
		switch x := v.(type) {
		case *ssa.Alloc:
			return fn, x
		case *ssa.FreeVar:
			par := fn.Parent()
			if par == nil {
				return nil, nil
			}
			idx := -1
			for i, fv := range fn.FreeVars {
				if fv == x {
					idx = i
				}
			}
			var next ssa.Value
			for _, b := range par.Blocks {
				for _, ins := range b.Instrs {
					if mc, ok := ins.(*ssa.MakeClosure); ok && mc.Fn == fn && idx >= 0 && idx < len(mc.Bindings) {
						next = mc.Bindings[idx]
					}
				}
			}
			if next == nil {
				return nil, nil
			}
			fn, v = par, next
		default:
			return nil, nil
		}
	}
	return nil, nil
}

// cellAssignedOnce: the variable in the cell is stored at most once in the owner function and
// never in a nested closure, and the cell's address is used for nothing but loads, stores,
// closure capture and debug references (so nothing else can write it).
func cellAssignedOnce(owner *ssa.Function, cell ssa.Value) bool {
	stores := 0
	var walk func(fn *ssa.Function, v ssa.Value, nested bool) bool
	walk = func(fn *ssa.Function, v ssa.Value, nested bool) bool {
		refs := v.Referrers()
		if refs == nil {
			return false
		}
		for _, r := range *refs {
			switch x := r.(type) {
			case *ssa.Store:
				if x.Addr != v {
					return false // the address itself is stored somewhere
				}
				if nested {
					return false
				}
				stores++
			case *ssa.UnOp:
				if x.Op != token.MUL {
					return false
				}
			case *ssa.DebugRef:
			case *ssa.MakeClosure:
				cf, ok := x.Fn.(*ssa.Function)
				if !ok {
					return false
				}
				for i, b := range x.Bindings {
					if b == v {
						if i >= len(cf.FreeVars) || !walk(cf, cf.FreeVars[i], true) {
							return false
						}
					}
				}
			default:
				return false
			}
		}
		return true
	}
	return walk(owner, cell, false) && stores <= 1
}

// registerImmCell records the cell of a once-assigned variable so that havocs keep its content.
func (fr *Frame) registerImmCell(v ssa.Value, ptr Term) {
	if fr.top != nil {
		return
	}
	owner, root := cellRoot(fr.fn, v)
	if root == nil || !root.Heap {
		return
	}
	et := root.Type().Underlying().(*types.Pointer).Elem()
	if leafCount(et) != 1 {
		return
	}
	if _, isStruct := et.Underlying().(*types.Struct); isStruct {
		return
	}
	if _, isArr := et.Underlying().(*types.Array); isArr {
		return
	}
	if !cellAssignedOnce(owner, root) {
		return
	}
	fr.c.immCells = append(fr.c.immCells, immCell{ptr, fr.c.sortOf(et)})
}
