package main

import (
	"fmt"
	"go/types"

	"golang.org/x/tools/go/ssa"
)

// Map model: a map value is a reference (Ptr). Contents live in three families of heaps:
//   MD_<K>      : Array Ptr (Array K Bool)   domain
//   MV_<K>_<V>  : Array Ptr (Array K V)      values
//   ML          : Array Ptr Int              number of keys

func (c *Ctx) mapHeap(st *State, name, full string) Term {
	if h, ok := st.heaps[name]; ok {
		return h
	}
	c.heapSort[name] = full
	n := name + "@0"
	c.declare(n, full)
	h := Term{n, full}
	st.heaps[name] = h
	return h
}

func (c *Ctx) setMapHeap(st *State, name string, h Term) {
	n := c.fresh(name, h.Sort)
	c.assumeDef(eq(n, h))
	st.heaps[name] = n
}

func (c *Ctx) mapDomName(m *types.Map) (string, string) {
	ks := c.sortOf(m.Key())
	return "MD_" + sanitizeIdent(ks), fmt.Sprintf("(Array Ptr (Array %s Bool))", ks)
}

func (c *Ctx) mapValName(m *types.Map) (string, string) {
	ks := c.sortOf(m.Key())
	vs := c.sortOf(m.Elem())
	return "MV_" + sanitizeIdent(ks) + "_" + sanitizeIdent(vs), fmt.Sprintf("(Array Ptr (Array %s %s))", ks, vs)
}

func (c *Ctx) mapDom(st *State, m *types.Map) Term {
	n, f := c.mapDomName(m)
	return c.mapHeap(st, n, f)
}

func (c *Ctx) mapVal(st *State, m *types.Map) Term {
	n, f := c.mapValName(m)
	return c.mapHeap(st, n, f)
}

func (c *Ctx) mapLenHeap(st *State) Term {
	return c.mapHeap(st, "ML", "(Array Ptr Int)")
}

func (c *Ctx) mapHas(st *State, m, k Term, mt *types.Map) Term {
	d := c.mapDom(st, mt)
	ks := c.sortOf(mt.Key())
	inner := sel(d, m, fmt.Sprintf("(Array %s Bool)", ks))
	return and(not(eq(m, tNilPtr)), sel(inner, k, SBool))
}

func (c *Ctx) mapLenTerm(st *State, m Term, mt *types.Map) Term {
	return ite(eq(m, tNilPtr), tInt(0), sel(c.mapLenHeap(st), m, SInt))
}

func (fr *Frame) execMakeMap(x *ssa.MakeMap) {
	c := fr.c
	mt := x.Type().Underlying().(*types.Map)
	m := c.allocObj(fr.st)
	dn, _ := c.mapDomName(mt)
	d := c.mapDom(fr.st, mt)
	ks := c.sortOf(mt.Key())
	empty := Term{fmt.Sprintf("((as const (Array %s Bool)) false)", ks), fmt.Sprintf("(Array %s Bool)", ks)}
	c.setMapHeap(fr.st, dn, sto(d, m, empty))
	l := c.mapLenHeap(fr.st)
	c.setMapHeap(fr.st, "ML", sto(l, m, tInt(0)))
	fr.vals[x] = m
	fr.registerPrivate(x, m)
}

func (fr *Frame) execMapUpdate(x *ssa.MapUpdate) {
	c := fr.c
	mt := x.Map.Type().Underlying().(*types.Map)
	m := fr.val(x.Map)
	k := fr.val(x.Key)
	v := fr.val(x.Value)
	fr.oblige("safety.nilmap", "", not(eq(m, tNilPtr)), x.Pos(), "assignment to entry in nil map")
	fr.lockDisciplineMap(x.Map, x.Pos())
	ks := c.sortOf(mt.Key())
	vs := c.sortOf(mt.Elem())
	dn, _ := c.mapDomName(mt)
	vn, _ := c.mapValName(mt)
	d := c.mapDom(fr.st, mt)
	mv := c.mapVal(fr.st, mt)
	l := c.mapLenHeap(fr.st)
	dsort := fmt.Sprintf("(Array %s Bool)", ks)
	vsort := fmt.Sprintf("(Array %s %s)", ks, vs)
	had := sel(sel(d, m, dsort), k, SBool)
	c.setMapHeap(fr.st, "ML", sto(l, m, ite(had, sel(l, m, SInt), app(SInt, "+", sel(l, m, SInt), tInt(1)))))
	c.setMapHeap(fr.st, dn, sto(d, m, sto(sel(d, m, dsort), k, tTrue)))
	c.setMapHeap(fr.st, vn, sto(mv, m, sto(sel(mv, m, vsort), k, v)))
}

func (fr *Frame) mapDelete(mv ssa.Value, kv ssa.Value) {
	c := fr.c
	mt := mv.Type().Underlying().(*types.Map)
	m := fr.val(mv)
	k := fr.val(kv)
	ks := c.sortOf(mt.Key())
	dn, _ := c.mapDomName(mt)
	d := c.mapDom(fr.st, mt)
	l := c.mapLenHeap(fr.st)
	dsort := fmt.Sprintf("(Array %s Bool)", ks)
	had := and(not(eq(m, tNilPtr)), sel(sel(d, m, dsort), k, SBool))
	c.setMapHeap(fr.st, "ML", sto(l, m, ite(had, app(SInt, "-", sel(l, m, SInt), tInt(1)), sel(l, m, SInt))))
	c.setMapHeap(fr.st, dn, sto(d, m, sto(sel(d, m, dsort), k, tFalse)))
}

func (fr *Frame) execLookup(x *ssa.Lookup) {
	c := fr.c
	switch t := x.X.Type().Underlying().(type) {
	case *types.Map:
		m := fr.val(x.X)
		k := fr.val(x.Index)
		fr.lockDisciplineMap(x.X, x.Pos())
		has := c.mapHas(fr.st, m, k, t)
		mv := c.mapVal(fr.st, t)
		ks := c.sortOf(t.Key())
		vs := c.sortOf(t.Elem())
		raw := sel(sel(mv, m, fmt.Sprintf("(Array %s %s)", ks, vs)), k, vs)
		v := ite(has, raw, c.zero(t.Elem()))
		n := c.fresh("lookup", v.Sort)
		c.assumeDef(eq(n, v))
		c.assumeTypeInv(n, t.Elem(), fr.st)
		if x.CommaOk {
			fr.tuples[x] = []Term{n, has}
		} else {
			fr.vals[x] = n
		}
	case *types.Basic:
		s := fr.val(x.X)
		i := fr.val(x.Index)
		fr.oblige("safety.index", "", Term{fmt.Sprintf("(and (<= 0 %s) (< %s (str_len %s)))", i.S, i.S, s.S), SBool}, x.Pos(), "string index in range")
		fr.vals[x] = app(SInt, "str_at", s, i)
	default:
		unsupp("Lookup on %s", x.X.Type())
	}
}

// mapIter is the abstract key sequence of one `range m` (design §2.2): distinct keys inside
// the domain snapshot taken at Range time, covering it (position function is a Skolem).
type mapIter struct {
	rng    *ssa.Range
	m      Term
	mt     *types.Map
	n      Term   // number of keys
	keys   string // function Int -> K
	pos    string // function K -> Int
	cursor Term   // Ptr cell in H_Int holding the number of completed Next calls
	dom0   Term
	isStr  bool
}

func (fr *Frame) execRange(x *ssa.Range) {
	c := fr.c
	mt, ok := x.X.Type().Underlying().(*types.Map)
	if !ok {
		unsupp("range over %s", x.X.Type())
	}
	m := fr.val(x.X)
	fr.lockDisciplineMap(x.X, x.Pos())
	ks := c.sortOf(mt.Key())
	c.nfresh++
	id := c.nfresh
	it := &mapIter{rng: x, m: m, mt: mt, keys: fmt.Sprintf("itkeys!%d", id), pos: fmt.Sprintf("itpos!%d", id)}
	c.declareFun(it.keys, []string{SInt}, ks)
	c.declareFun(it.pos, []string{ks}, SInt)
	it.n = c.fresh("itn", SInt)
	c.assumeDef(eq(it.n, c.mapLenTerm(fr.st, m, mt)))
	c.assume(app(SBool, ">=", it.n, tInt(0)))
	dsort := fmt.Sprintf("(Array %s Bool)", ks)
	d0 := c.fresh("itdom", dsort)
	c.assumeDef(eq(d0, ite(eq(m, tNilPtr), Term{fmt.Sprintf("((as const %s) false)", dsort), dsort}, sel(c.mapDom(fr.st, mt), m, dsort))))
	it.dom0 = d0
	// keys(i) in domain, injective; every domain key has a position
	c.assume(Term{fmt.Sprintf("(forall ((i Int)) (! (=> (and (<= 0 i) (< i %s)) (and (select %s (%s i)) (= (%s (%s i)) i))) :pattern ((%s i))))", it.n.S, d0.S, it.keys, it.pos, it.keys, it.keys), SBool})
	c.assume(Term{fmt.Sprintf("(forall ((k %s)) (! (=> (select %s k) (and (<= 0 (%s k)) (< (%s k) %s) (= (%s (%s k)) k))) :pattern ((%s k))))", ks, d0.S, it.pos, it.pos, it.n.S, it.keys, it.pos, it.pos), SBool})
	cur := c.allocObj(fr.st)
	c.store(fr.st, cur, types.Typ[types.Int], tInt(0))
	it.cursor = cur
	if fr.iters == nil {
		fr.iters = map[ssa.Value]*mapIter{}
	}
	fr.iters[x] = it
	fr.vals[x] = cur
}

func (fr *Frame) execNext(x *ssa.Next) {
	c := fr.c
	if x.IsString {
		unsupp("range over string")
	}
	it := fr.iters[x.Iter]
	if it == nil {
		unsupp("Next on unknown iterator")
	}
	pos := c.load(fr.st, it.cursor, types.Typ[types.Int])
	p := c.fresh("itcur", SInt)
	c.assumeDef(eq(p, pos))
	// the cursor cell is private to the iterator and written only here: 0 <= cursor <= n
	fr.assumeHere(Term{fmt.Sprintf("(and (<= 0 %s) (<= %s %s))", p.S, p.S, it.n.S), SBool})
	ok := app(SBool, "<", p, it.n)
	ks := c.sortOf(it.mt.Key())
	vs := c.sortOf(it.mt.Elem())
	k := app(ks, it.keys, p)
	kn := c.fresh("itkey", ks)
	c.assumeDef(eq(kn, k))
	c.assumeTypeInv(kn, it.mt.Key(), fr.st)
	mv := c.mapVal(fr.st, it.mt)
	v := sel(sel(mv, it.m, fmt.Sprintf("(Array %s %s)", ks, vs)), kn, vs)
	vn := c.fresh("itval", vs)
	c.assumeDef(eq(vn, v))
	c.assumeTypeInv(vn, it.mt.Elem(), fr.st)
	c.store(fr.st, it.cursor, types.Typ[types.Int], ite(ok, app(SInt, "+", p, tInt(1)), p))
	fr.tuples[x] = []Term{ok, kn, vn}
}

// iterPos implements iterpos(k): completed iterations of map-range loop[k].
func (fr *Frame) iterOfLoop(x ECall, e *Env) *mapIter {
	if len(x.Args) != 1 {
		evalFail("%s(loopOrdinal)", x.Fun)
	}
	lit, ok := x.Args[0].(EInt)
	if !ok {
		evalFail("%s needs a literal loop ordinal", x.Fun)
	}
	var k int
	fmt.Sscanf(lit.Val, "%d", &k)
	for _, li := range fr.loops {
		if li.ordinal != k {
			continue
		}
		// the loop header contains the Next instruction
		for _, ins := range li.header.Instrs {
			if nx, ok := ins.(*ssa.Next); ok {
				if it := fr.iters[nx.Iter]; it != nil {
					return it
				}
			}
		}
	}
	evalFail("loop[%d] is not a map range loop", k)
	return nil
}

// iterPos: number of keys already handed out. At the loop header (before Next) this is the
// number of completed iterations.
func (fr *Frame) iterPos(x ECall, e *Env) Binding {
	it := fr.iterOfLoop(x, e)
	return Binding{fr.c.load(e.st, it.cursor, types.Typ[types.Int]), types.Typ[types.Int]}
}

// iterKey(k, i): the i-th key of the iteration order of loop[k].
func (fr *Frame) iterKey(x ECall, e *Env) Binding {
	if len(x.Args) != 2 {
		evalFail("iterkey(loop, i)")
	}
	it := fr.iterOfLoop(ECall{x.Fun, x.Args[:1]}, e)
	i := e.eval(x.Args[1])
	return Binding{app(fr.c.sortOf(it.mt.Key()), it.keys, i.T), it.mt.Key()}
}
