package main

import (
	"fmt"
	"go/ast"
	"go/token"
	"go/types"
	"os"
	"path/filepath"
	"sort"
	"strings"

	"golang.org/x/tools/go/packages"
	"golang.org/x/tools/go/ssa"
	"golang.org/x/tools/go/ssa/ssautil"
)

// Program is the loaded view of the repository packages a check needs.
type Program struct {
	Fset   *token.FileSet
	Pkgs   []*packages.Package
	SSA    *ssa.Program
	ByPath map[string]*packages.Package
	SSAPkg map[string]*ssa.Package
	// all function bodies reachable by name
	Funcs map[string]*ssa.Function
}

const repoRoot = "/repo"

// loadProgram loads the named import paths from moduleDir (relative to /repo) with
// -tags=verif and builds SSA with debug info. overlay maps absolute file names to
// replacement contents (used by the self-test mutants).
func loadProgram(moduleDir string, patterns []string, overlay map[string][]byte) (*Program, error) {
	cfg := &packages.Config{
		Mode: packages.NeedName | packages.NeedFiles | packages.NeedCompiledGoFiles | packages.NeedImports |
			packages.NeedDeps | packages.NeedTypes | packages.NeedSyntax | packages.NeedTypesInfo | packages.NeedTypesSizes | packages.NeedModule,
		Dir:        filepath.Join(repoRoot, moduleDir),
		BuildFlags: []string{"-tags=verif"},
		Env: append(os.Environ(), "GOFLAGS=-mod=mod", "GOPROXY=off", "GOSUMDB=off", "GOTOOLCHAIN=local",
			"GOWORK=off"),
		Overlay: overlay,
	}
	pkgs, err := packages.Load(cfg, patterns...)
	if err != nil {
		return nil, err
	}
	var errs []string
	packages.Visit(pkgs, nil, func(p *packages.Package) {
		for _, e := range p.Errors {
			if strings.HasPrefix(p.PkgPath, "go.opentelemetry.io/collector") {
				errs = append(errs, e.Error())
			}
		}
	})
	if len(errs) > 0 {
		return nil, fmt.Errorf("load errors: %s", strings.Join(errs, "; "))
	}
	prog, _ := ssautil.AllPackages(pkgs, ssa.GlobalDebug|ssa.InstantiateGenerics*0)
	// Build only in-repo packages (function bodies of dependencies are not needed:
	// they are handled by assumed contracts). Build is per package.
	P := &Program{Fset: prog.Fset, Pkgs: pkgs, SSA: prog, ByPath: map[string]*packages.Package{},
		SSAPkg: map[string]*ssa.Package{}, Funcs: map[string]*ssa.Function{}}
	packages.Visit(pkgs, nil, func(p *packages.Package) {
		P.ByPath[p.PkgPath] = p
		sp := prog.Package(p.Types)
		if sp == nil {
			return
		}
		P.SSAPkg[p.PkgPath] = sp
		if strings.HasPrefix(p.PkgPath, "go.opentelemetry.io/collector") {
			sp.Build()
		}
	})
	for path, sp := range P.SSAPkg {
		if !strings.HasPrefix(path, "go.opentelemetry.io/collector") {
			continue
		}
		for _, m := range sp.Members {
			switch m := m.(type) {
			case *ssa.Function:
				P.addFunc(m)
			case *ssa.Type:
				nt, ok := m.Type().(*types.Named)
				if !ok {
					continue
				}
				for i := 0; i < nt.NumMethods(); i++ {
					if f := prog.FuncValue(nt.Method(i)); f != nil {
						P.addFunc(f)
					}
				}
			}
		}
	}
	return P, nil
}

func (P *Program) addFunc(f *ssa.Function) {
	if f == nil || f.Blocks == nil {
		return
	}
	name := funcKey(f)
	if _, ok := P.Funcs[name]; ok {
		return
	}
	P.Funcs[name] = f
	for _, a := range f.AnonFuncs {
		P.addFunc(a)
	}
}

// funcKey is the stable, line-free name used in contracts and obligation names:
// <pkgpath>.Func, <pkgpath>.(*T).M, <pkgpath>.(T).M, closures <parent>$k.
func funcKey(f *ssa.Function) string {
	if f.Parent() != nil {
		// anonymous function: parent key + $ordinal
		p := f.Parent()
		for i, a := range p.AnonFuncs {
			if a == f {
				return fmt.Sprintf("%s$%d", funcKey(p), i+1)
			}
		}
		return funcKey(p) + "$?"
	}
	pkg := ""
	if f.Pkg != nil {
		pkg = f.Pkg.Pkg.Path()
	} else if f.Object() != nil && f.Object().Pkg() != nil {
		pkg = f.Object().Pkg().Path()
	}
	if recv := f.Signature.Recv(); recv != nil {
		t := recv.Type()
		ptr := false
		if p, ok := t.(*types.Pointer); ok {
			t = p.Elem()
			ptr = true
		}
		tn := "?"
		if n, ok := t.(*types.Named); ok {
			tn = n.Obj().Name()
			if n.Obj().Pkg() != nil {
				pkg = n.Obj().Pkg().Path()
			}
		}
		if ptr {
			return fmt.Sprintf("%s.(*%s).%s", pkg, tn, f.Name())
		}
		return fmt.Sprintf("%s.(%s).%s", pkg, tn, f.Name())
	}
	return pkg + "." + f.Name()
}

// shortKey strips the module prefix for display.
func shortKey(k string) string {
	return strings.TrimPrefix(k, "go.opentelemetry.io/collector/")
}

// loopStmts returns the for/range statements of a function body in source (pre-)order,
// not descending into function literals.
func loopStmts(body ast.Node) []ast.Stmt {
	var out []ast.Stmt
	if body == nil {
		return nil
	}
	first := true
	ast.Inspect(body, func(n ast.Node) bool {
		switch n := n.(type) {
		case *ast.FuncLit:
			if first {
				first = false
				return true
			}
			return false
		case *ast.ForStmt:
			out = append(out, n)
		case *ast.RangeStmt:
			out = append(out, n)
		}
		first = false
		return true
	})
	sort.SliceStable(out, func(i, j int) bool { return out[i].Pos() < out[j].Pos() })
	return out
}
