#!/bin/bash
# usage: run_replay.sh <replay test file under /verif> <module dir rel. to /repo> <package pattern> <test regexp> <injected file name>
# Runs a replay test against the real code through `go test -overlay` (nothing is written to /repo).
set -u
export GOFLAGS=-mod=mod GOPROXY=off GOSUMDB=off GOTOOLCHAIN=local
src="$1"; mod="$2"; pkg="$3"; re="$4"; name="$5"
[ "${src#/}" = "$src" ] && src="/verif/$src"
pkgdir="/repo/$mod/${pkg#./}"
ov=$(mktemp /tmp/verif-ov-XXXXXX.json)
printf '{"Replace":{"%s":"%s"}}' "${pkgdir%/}/$name" "$src" > "$ov"
(cd "/repo/$mod" && go test -overlay "$ov" -vet=off -count=1 -timeout 120s -run "$re" "$pkg")
rc=$?
rm -f "$ov"
exit $rc
