#!/usr/bin/env python3
"""Confirms a seeded change in a scratch worktree: (1) it applies and compiles, (2) the existing
tests of the touched packages still pass with it, (3) its demonstration fails with the change and
passes without. Then stores it under /verif/seeded/<name>/ (patch.diff, demo, meta.json).
usage: confirm_seed.py <seed-dir> [<name>]"""
import json, os, re, shutil, subprocess, sys, tempfile
seed = sys.argv[1].rstrip('/')
name = sys.argv[2] if len(sys.argv) > 2 else os.path.basename(seed).replace('seed-', '')
meta = json.load(open(os.path.join(seed, 'meta.json')))
env = dict(os.environ, GOFLAGS='-mod=mod', GOPROXY='off', GOSUMDB='off', GOTOOLCHAIN='local')
wt = tempfile.mkdtemp(prefix='wt-confirm-', dir='/tmp')
os.rmdir(wt)
def run(cmd, cwd, timeout=900):
    p = subprocess.run(cmd, cwd=cwd, env=env, shell=True, capture_output=True, text=True, timeout=timeout)
    return p.returncode, (p.stdout + p.stderr)[-3000:]
base = subprocess.run("git -C /repo rev-parse HEAD", shell=True, capture_output=True, text=True).stdout.strip()
subprocess.run(f"git -C /repo worktree add -q --detach {wt} {base}", shell=True, check=True)
result = {"seed": name, "base": base}
try:
    demo_src = [f for f in os.listdir(seed) if f.endswith('_test.go') or f == 'demo_test.go']
    demo_src = os.path.join(seed, demo_src[0])
    demo_rel = meta['demo_path']
    if not demo_rel.endswith('.go'):
        demo_rel = os.path.join(demo_rel, 'zz_seed_demo_test.go')
    demo_dst = os.path.join(wt, demo_rel)
    def moddir(path):
        d = os.path.dirname(path)
        while d != wt and not os.path.exists(os.path.join(d, 'go.mod')):
            d = os.path.dirname(d)
        return d
    tests = re.findall(r'^func (Test\w+)\(', open(demo_src).read(), re.M)
    dm = moddir(demo_dst)
    rel = './' + os.path.relpath(os.path.dirname(demo_dst), dm)
    demo_cmd = f"go test -count=1 -vet=off -timeout 300s -run '^({'|'.join(tests)})$' {rel}"
    # without the change
    shutil.copy(demo_src, demo_dst)
    rc0, out0 = run(demo_cmd, dm)
    result['demo_passes_without'] = rc0 == 0
    # with the change
    rc, out = run(f"git apply {seed}/patch.diff", wt)
    result['applies'] = rc == 0
    rc1, out1 = run(demo_cmd, dm)
    result['demo_fails_with'] = rc1 != 0 and 'build failed' not in out1
    result['demo_output_with'] = out1[-1200:]
    os.remove(demo_dst)
    # existing tests of touched packages
    ok = True
    ran = []
    for f in meta['touched_files']:
        p = os.path.join(wt, f)
        m = moddir(p)
        r = './' + os.path.relpath(os.path.dirname(p), m)
        cmd = f"go test -count=1 -vet=off -timeout 600s {r}"
        if (m, r) in ran: continue
        ran.append((m, r))
        rc2, out2 = run(cmd, m)
        if rc2 != 0:
            ok = False
            result.setdefault('existing_fail_output', out2[-1500:])
    result['existing_tests_pass_with'] = ok
    result['existing_tests_ran'] = [f"{os.path.relpath(m, wt)}: go test {r}" for m, r in ran]
    result['confirmed'] = all([result['applies'], result['demo_passes_without'], result['demo_fails_with'], ok])
    if result['confirmed']:
        dst = os.path.join('/verif/seeded', name)
        os.makedirs(dst, exist_ok=True)
        shutil.copy(os.path.join(seed, 'patch.diff'), dst)
        shutil.copy(demo_src, os.path.join(dst, os.path.basename(demo_src)))
        meta['confirmed_by'] = {"what_i_ran": [demo_cmd + " (without change: pass; with change: fail)"] + result['existing_tests_ran'], "base_commit": base}
        meta['demo_path'] = demo_rel
        json.dump(meta, open(os.path.join(dst, 'meta.json'), 'w'), indent=1)
finally:
    subprocess.run(f"git -C /repo worktree remove --force {wt}", shell=True)
print(json.dumps(result, indent=1))
