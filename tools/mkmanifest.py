#!/usr/bin/env python3
"""Regenerates /verif/MANIFEST.json from tools/claims.json (per-property claim texts) and the
known hook commits in /repo. Keeps the manifest valid at all times."""
import json, subprocess, os, sys
root = os.path.dirname(os.path.dirname(os.path.abspath(__file__)))
claims = json.load(open(os.path.join(root, "tools", "claims.json")))
props = [json.loads(l) for l in open(os.path.join(root, "properties.jsonl"))]
ids = [p["id"] for p in props]
env = "GOFLAGS=-mod=mod GOPROXY=off GOSUMDB=off GOTOOLCHAIN=local"
try:
    log = subprocess.run(["git", "-C", "/repo", "log", "--format=%H %s"], capture_output=True, text=True).stdout.splitlines()
    hooks = [l.split()[0] for l in log if l.split(" ", 1)[1].startswith("verif:")]
except Exception:
    hooks = []
baseline = json.load(open("/root/.vp/BASELINE.json"))["cmd"]
checks, na = [], []
for i in ids:
    c = claims.get(i)
    if not c or not c.get("claimed"):
        na.append({"property_id": i, "reason": (c or {}).get("reason", "check not built yet")})
        continue
    checks.append({
        "property_id": i,
        "quick_cmd": f"bin/gvc check {i} --tier quick",
        "thorough_cmd": f"bin/gvc check {i} --tier thorough",
        "evidence_file": f"/verif/evidence/{i}.json",
        "replay_cmd_template": "bin/gvc replay {path}",
        "engine": "gvc",
        "level_claimed": {"category": "proof", "text": c["text"], "design_ref": c.get("design_ref", "DESIGN.md §7 " + i)},
        "level_note": c["note"],
        "technique": c.get("technique", "contract-based deductive verification: VCs generated from go/ssa of the real functions, discharged by z3/cvc5"),
    })
m = {
    "version": 1,
    "setup_cmd": f"cd /verif/engine && {env} go build -o /verif/bin/gvc .",
    "hooks": {
        "guard": "verif",
        "enable": "go build tag `verif`: packages are loaded with -tags=verif; the tag only adds comment-only zz_verif_contracts.go files (contracts as //@ comments), no executable code",
        "baseline_off_cmd": baseline,
        "source_commits": hooks,
        "add_only": True,
    },
    "engines": [{"name": "gvc", "path": "/verif/engine", "serves_properties": [c["property_id"] for c in checks],
                 "kind_free_text": "self-written deductive verifier for Go: weakest-precondition style VC generation over go/ssa with contracts in //@ comment files, SMT portfolio z3 4.8.12 / z3 5.1.0 / cvc5 1.0.3"}],
    "checks": checks,
    "not_applicable": na,
    "notes": "Contracts live in /repo/**/zz_verif_contracts.go (tag verif) and /verif/contracts/trusted/*.spec (assumed contracts of code outside the repository). Known findings: /verif/known_findings.json.",
}
json.dump(m, open(os.path.join(root, "MANIFEST.json"), "w"), indent=1)
print("MANIFEST.json:", len(checks), "checks,", len(na), "not_applicable")
