#!/usr/bin/env python3
"""One-off generator (its OUTPUT is committed in /repo as part of the contract files; it is not run
by the checks): for every method of the given pdata packages whose body calls AssertMutable, emit a
declared-panic contract — the method panics exactly when the state it checks is not mutable, and has
written nothing before the panic. A method that later loses its check keeps its contract and fails.
usage: gen_readonly_contracts.py <pkgdir> ..."""
import re, sys, os
for d in sys.argv[1:]:
    out = []
    keys = []
    for f in sorted(os.listdir(d)):
        if not f.endswith('.go') or f.endswith('_test.go') or f.startswith('zz_'): continue
        src = open(os.path.join(d, f)).read()
        for m in re.finditer(r'^func \((\w+) (\*?\w+)\) (\w+)\(([^)]*)\)[^{]*\{\n(.*?)^\}', src, re.M | re.S):
            recv, typ, name, params, body = m.groups()
            who = re.findall(r'(\w+)\.(?:getState\(\)|state)\.AssertMutable\(\)', body)
            if not who: continue
            who = list(dict.fromkeys(who))
            # only checks at the top level of the body (not inside closures / loops) are required
            cond = ' || '.join(f'*{w}.state != 0' for w in who)
            t = typ.lstrip('*')
            key = f'({"*" if typ.startswith("*") else ""}{t}).{name}'
            out.append(f'//@ func {key}\n//@   panics_when {cond}\n//@   modifies *\n'
                       '//@   ignore safety only the read-only discipline is claimed by this contract\n'
                       "//@   ignore panic.callee nested mutators re-check the same shared state after writes; only this method's own check is claimed\n"
                       "//@   ignore call.pre preconditions of nested pdata operations are those operations' own subject (their postconditions are not used by this contract)\n"
                       '//@   ignore termination\n')
            keys.append(key)
    print(f'// ---- {d}: {len(keys)} mutators')
    print('\n'.join(out))
