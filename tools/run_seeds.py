#!/usr/bin/env python3
"""Applies every confirmed seeded change under /verif/seeded to /repo (git apply), runs the quick
check of the property it breaks, reverts it (git apply -R), and records which obligations fail in
/verif/seeded/RESULTS.json. Refuses to run if /repo has uncommitted changes to tracked files.
usage: run_seeds.py [name-filter]"""
import json, os, subprocess, sys, re
flt = sys.argv[1] if len(sys.argv) > 1 else ''
root = '/verif/seeded'
if subprocess.run("git -C /repo diff --quiet", shell=True).returncode != 0:
    sys.exit("/repo has uncommitted changes to tracked files; commit them first")
claimed = {c['property_id'] for c in json.load(open('/verif/MANIFEST.json'))['checks']}
res_path = os.path.join(root, 'RESULTS.json')
results = json.load(open(res_path)) if os.path.exists(res_path) else {}
touched = set()
for name in sorted(os.listdir(root)):
    d = os.path.join(root, name)
    if not os.path.isdir(d) or flt not in name: continue
    meta = json.load(open(os.path.join(d, 'meta.json')))
    prop = meta['property']
    if prop not in claimed:
        results[name] = {"property": prop, "detected": False, "note": "property not claimed (no check)"}
        continue
    if subprocess.run(f"git -C /repo apply {d}/patch.diff", shell=True).returncode != 0:
        results[name] = {"property": prop, "detected": False, "note": "patch does not apply"}
        continue
    touched.add(prop)
    try:
        p = subprocess.run(f"bin/gvc check {prop} --tier quick", cwd='/verif', shell=True, capture_output=True, text=True)
        viol = re.findall(r'^VIOLATION .*?obligation=(\S+)', p.stdout, re.M)
        results[name] = {"property": prop, "detected": p.returncode == 1 and len(viol) > 0, "failed_obligations": viol[:12],
                         "summary": meta.get('summary', '')[:300], "needs": meta.get('needs', '')[:300]}
    finally:
        subprocess.run(f"git -C /repo apply -R {d}/patch.diff", shell=True)
    print(name, "DETECTED" if results[name]['detected'] else "MISSED", results[name].get('failed_obligations', [])[:3])
json.dump(results, open(res_path, 'w'), indent=1)
# the quick run above rewrote evidence on a mutated tree: restore evidence from the unchanged tree
for prop in sorted(touched):
    subprocess.run(f"bin/gvc check {prop} --tier quick >/dev/null", cwd='/verif', shell=True)
