#!/bin/bash
# runs every claimed check (quick tier unless $1 = thorough) and prints the summary lines
cd /verif
tier=${1:-quick}
rc=0
for id in $(python3 -c "import json;print(' '.join(c['property_id'] for c in json.load(open('MANIFEST.json'))['checks']))"); do
  out=$(bin/gvc check $id --tier $tier 2>&1); r=$?
  echo "$out" | grep -E "^(VIOLATION|KNOWN-FINDING|$id )" 
  [ $r -ne 0 ] && { rc=1; echo "  -> $id exit $r"; }
done
exit $rc
