#!/bin/bash
# usage: prep_seed_agent.sh <id> [n] [first k]   -> creates /tmp/wt-<id> (contract files hidden) and /tmp/prompt-<id>.txt
set -e
id=$1; n=${2:-3}; start=${3:-1}
wt=/tmp/wt-$id
git -C /repo worktree remove --force $wt 2>/dev/null || true
git -C /repo worktree add -q --detach $wt HEAD
cd $wt
for f in $(git ls-files | grep zz_verif_contracts.go); do git update-index --skip-worktree $f; rm -f $f; done
python3 - "$id" "$n" "$start" <<'PY'
import json,sys
id,n,start=sys.argv[1],int(sys.argv[2]),int(sys.argv[3])
p=[json.loads(l) for l in open('/verif/properties.jsonl')]
p=[x for x in p if x['id']==id][0]
tmpl=open('/tmp/prompt-C06.txt').read() if False else None
text=f"""You are helping test a verification setup for the open-source project open-telemetry/opentelemetry-collector (Go). You have your own scratch git worktree of the repository at /tmp/wt-{id} (work ONLY there; never touch /repo or /verif; do not read /verif).

Environment: the sandbox is offline. Prefix every shell command that runs go with:
  export GOFLAGS=-mod=mod GOPROXY=off GOSUMDB=off GOTOOLCHAIN=local
The repository is multi-module (each directory with a go.mod is its own module; run `go test` from inside the module directory that owns the package, e.g. `cd /tmp/wt-{id}/exporter/exporterhelper && go test ./internal/...`).

Here is a semantic property the project is supposed to satisfy:

TITLE: {p['title']}
STATEMENT: {p['statement']}
QUANTIFIED OVER: {p['quantifier']['text']}
CODE ANCHORS: {', '.join(p['anchors']['files'])}

Your task: produce {n} DIFFERENT, independent, realistic code changes (bugs a maintainer could plausibly introduce in a refactor or "optimisation"), each of which BREAKS this property while (a) still compiling and (b) still passing the existing test suite of the touched package(s) (run the relevant `go test` for the touched module packages to confirm, with -count=1). Prefer subtle changes that need something specific to manifest — a particular interleaving, a fault at a particular point, a multi-step sequence of operations, an unusual input or configuration, or two cooperating sites that each look fine alone — NOT ones that ordinary use or the existing tests would expose at once. Change only non-test .go source files of the repository (no new dependencies).

For EACH change, deliver in directory /tmp/seed-{id}-<k>/ (k={start}..{start+n-1}):
  - patch.diff : `git diff` of the change against the worktree's HEAD (apply-able with `git apply` from the repo root). After saving the diff, REVERT the worktree (`git checkout -- .`) before starting the next change, so each patch is independent.
  - demo_test.go (or demo/main.go): a demonstration — a Go test placed in the right package directory (state the path in meta.json) that FAILS with the change applied and PASSES without it. It must run offline in a few seconds. Verify both directions yourself.
  - meta.json : {{"property": "{id}", "summary": "...what the change does...", "needs": "...what specific input/sequence/interleaving/fault is needed for it to manifest...", "demo_path": "<repo-relative path where demo_test.go must be copied to run>", "demo_cmd": "<command, run from which directory>", "touched_files": [...], "existing_tests_cmd": "<what you ran to confirm the existing tests still pass>", "existing_tests_pass": true}}

When done, make sure the worktree is reverted to a clean state, and reply with a short list: for each k the one-line summary and whether demo fails-with/passes-without and existing tests pass. Do not produce changes whose only effect is a compile error, a data race that needs -race to detect, or a change to test files.
"""
open(f'/tmp/prompt-{id}.txt','w').write(text)
PY
echo prepared $wt
