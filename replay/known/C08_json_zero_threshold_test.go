// Replay for the C08 finding: the hand-written JSON decoder of an exponential histogram data point
// has no case for "zeroThreshold"/"zero_threshold" (proto field 14), so a JSON round trip loses it.
package pmetric

import "testing"

func TestVerifC08JSONRoundTripKeepsZeroThreshold(t *testing.T) {
	md := NewMetrics()
	m := md.ResourceMetrics().AppendEmpty().ScopeMetrics().AppendEmpty().Metrics().AppendEmpty()
	m.SetName("h")
	dp := m.SetEmptyExponentialHistogram().DataPoints().AppendEmpty()
	dp.SetZeroThreshold(0.5)
	dp.SetZeroCount(3)
	buf, err := (&JSONMarshaler{}).MarshalMetrics(md)
	if err != nil {
		t.Fatal(err)
	}
	got, err := (&JSONUnmarshaler{}).UnmarshalMetrics(buf)
	if err != nil {
		t.Fatal(err)
	}
	g := got.ResourceMetrics().At(0).ScopeMetrics().At(0).Metrics().At(0).ExponentialHistogram().DataPoints().At(0)
	if g.ZeroCount() != 3 {
		t.Fatalf("zero count lost: %s", buf)
	}
	if g.ZeroThreshold() != 0.5 {
		t.Fatalf("zero threshold lost in JSON round trip: encoded %s, decoded %v", buf, g.ZeroThreshold())
	}
}
