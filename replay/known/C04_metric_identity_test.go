// Replay for the C04 finding: when MergeSplit has to cut inside one metric, the split-off part is
// built with pmetric.NewMetric() and loses the metric's identity (name, description, unit,
// metadata; for a sum also temporality and monotonicity).
package exporterhelper

import (
	"context"
	"testing"

	"go.opentelemetry.io/collector/exporter/exporterhelper/internal/request"
	"go.opentelemetry.io/collector/pdata/pmetric"
)

func TestVerifC04SplitMetricKeepsIdentity(t *testing.T) {
	md := pmetric.NewMetrics()
	m := md.ResourceMetrics().AppendEmpty().ScopeMetrics().AppendEmpty().Metrics().AppendEmpty()
	m.SetName("requests")
	m.SetUnit("1")
	m.SetDescription("d")
	m.Metadata().PutStr("k", "v")
	s := m.SetEmptySum()
	s.SetIsMonotonic(true)
	s.SetAggregationTemporality(pmetric.AggregationTemporalityCumulative)
	for i := 0; i < 3; i++ {
		s.DataPoints().AppendEmpty().SetIntValue(int64(i))
	}
	req := newMetricsRequest(md)
	out, err := req.MergeSplit(context.Background(), 2, request.SizerTypeItems, nil)
	if err != nil || len(out) != 2 {
		t.Fatalf("MergeSplit: %v, %d requests", err, len(out))
	}
	for i, r := range out {
		got := r.(*metricsRequest).md.ResourceMetrics().At(0).ScopeMetrics().At(0).Metrics().At(0)
		if got.Name() != "requests" || got.Unit() != "1" || got.Description() != "d" {
			t.Errorf("batch %d: metric identity lost: name=%q unit=%q description=%q", i, got.Name(), got.Unit(), got.Description())
		}
		if _, ok := got.Metadata().Get("k"); !ok {
			t.Errorf("batch %d: metric metadata lost", i)
		}
		if got.Type() != pmetric.MetricTypeSum || !got.Sum().IsMonotonic() || got.Sum().AggregationTemporality() != pmetric.AggregationTemporalityCumulative {
			t.Errorf("batch %d: sum lost monotonicity/temporality", i)
		}
	}
}
