// Replay for the C16 finding: an enabled-decoder list naming an algorithm that has no decoder
// ("br") stores a nil function in the decoder table; a request carrying that Content-Encoding
// then calls the nil function and the handler goroutine panics instead of answering 400.
// Run: go test -overlay (see gvc replay) in config/confighttp with -run TestVerifC16UnknownEnabledAlgorithm
package confighttp

import (
	"net/http"
	"net/http/httptest"
	"strings"
	"testing"
)

func TestVerifC16UnknownEnabledAlgorithm(t *testing.T) {
	reached := false
	h := httpContentDecompressor(http.HandlerFunc(func(http.ResponseWriter, *http.Request) { reached = true }),
		1024, nil, []string{"", "br"}, nil)
	req := httptest.NewRequest(http.MethodPost, "/", strings.NewReader("x"))
	req.Header.Set("Content-Encoding", "br")
	rec := httptest.NewRecorder()
	func() {
		defer func() {
			if p := recover(); p != nil {
				t.Fatalf("handler panicked instead of rejecting the request: %v", p)
			}
		}()
		h.ServeHTTP(rec, req)
	}()
	if reached {
		t.Fatalf("the handler ran for a request whose encoding has no decoder")
	}
	if rec.Code != http.StatusBadRequest {
		t.Fatalf("status %d, want 400", rec.Code)
	}
}
