// Replay for the C04 finding "splitting by bytes never ends when one item is larger than
// max_size": extractLogs/Traces/Metrics take nothing when not even the first item fits, report a
// removed size of 0, and split() loops for ever appending empty requests (until memory runs out).
// The property: merging and splitting always terminate, every emitted batch is no larger than the
// maximum unless it holds a single indivisible item, and nothing is lost.
package exporterhelper

import (
	"context"
	"strings"
	"testing"
	"time"

	"go.opentelemetry.io/collector/exporter/exporterhelper/internal/request"
	"go.opentelemetry.io/collector/pdata/plog"
	"go.opentelemetry.io/collector/pdata/pmetric"
	"go.opentelemetry.io/collector/pdata/ptrace"
)

func verifC04SplitWithDeadline(t *testing.T, what string, f func() ([]Request, error)) []Request {
	t.Helper()
	type res struct {
		out []Request
		err error
	}
	ch := make(chan res, 1)
	go func() {
		out, err := f()
		ch <- res{out, err}
	}()
	select {
	case r := <-ch:
		if r.err != nil {
			t.Fatalf("%s: MergeSplit: %v", what, r.err)
		}
		return r.out
	case <-time.After(5 * time.Second):
		t.Fatalf("%s: MergeSplit did not return within 5s (one item larger than max_size bytes)", what)
	}
	return nil
}

func TestVerifC04SplitOversizeLogRecord(t *testing.T) {
	big := strings.Repeat("x", 400)
	ld := plog.NewLogs()
	lrs := ld.ResourceLogs().AppendEmpty().ScopeLogs().AppendEmpty().LogRecords()
	lrs.AppendEmpty().Body().SetStr("a")
	lrs.AppendEmpty().Body().SetStr(big)
	lrs.AppendEmpty().Body().SetStr("b")
	req := newLogsRequest(ld)
	// run in a goroutine that is abandoned on time-out; the defective loop allocates quickly, so
	// the deadline is short
	out := verifC04SplitWithDeadline(t, "logs", func() ([]Request, error) {
		return req.MergeSplit(context.Background(), 100, request.SizerTypeBytes, nil)
	})
	var bodies []string
	for i, r := range out {
		l := r.(*logsRequest).ld
		if l.LogRecordCount() == 0 {
			t.Errorf("batch %d holds no record", i)
		}
		if sz := (&plog.ProtoMarshaler{}).LogsSize(l); sz > 100 && l.LogRecordCount() != 1 {
			t.Errorf("batch %d: %d bytes > max_size 100 with %d records", i, sz, l.LogRecordCount())
		}
		for a := 0; a < l.ResourceLogs().Len(); a++ {
			for b := 0; b < l.ResourceLogs().At(a).ScopeLogs().Len(); b++ {
				rs := l.ResourceLogs().At(a).ScopeLogs().At(b).LogRecords()
				for c := 0; c < rs.Len(); c++ {
					bodies = append(bodies, rs.At(c).Body().Str())
				}
			}
		}
	}
	if len(bodies) != 3 || bodies[0] != "a" || bodies[1] != big || bodies[2] != "b" {
		t.Errorf("records leaving the batcher differ from those entering it: got %d records", len(bodies))
	}
}

func TestVerifC04SplitOversizeSpan(t *testing.T) {
	big := strings.Repeat("x", 400)
	td := ptrace.NewTraces()
	ss := td.ResourceSpans().AppendEmpty().ScopeSpans().AppendEmpty().Spans()
	ss.AppendEmpty().SetName(big)
	ss.AppendEmpty().SetName("b")
	req := newTracesRequest(td)
	out := verifC04SplitWithDeadline(t, "traces", func() ([]Request, error) {
		return req.MergeSplit(context.Background(), 100, request.SizerTypeBytes, nil)
	})
	n := 0
	for i, r := range out {
		d := r.(*tracesRequest).td
		if sz := (&ptrace.ProtoMarshaler{}).TracesSize(d); sz > 100 && d.SpanCount() != 1 {
			t.Errorf("batch %d: %d bytes > max_size 100 with %d spans", i, sz, d.SpanCount())
		}
		n += d.SpanCount()
	}
	if n != 2 {
		t.Errorf("%d spans left the batcher, 2 entered", n)
	}
}

func TestVerifC04SplitOversizeDataPoint(t *testing.T) {
	big := strings.Repeat("x", 400)
	md := pmetric.NewMetrics()
	m := md.ResourceMetrics().AppendEmpty().ScopeMetrics().AppendEmpty().Metrics().AppendEmpty()
	m.SetName("m")
	dps := m.SetEmptyGauge().DataPoints()
	dps.AppendEmpty().Attributes().PutStr("k", big)
	dps.AppendEmpty().SetIntValue(1)
	req := newMetricsRequest(md)
	out := verifC04SplitWithDeadline(t, "metrics", func() ([]Request, error) {
		return req.MergeSplit(context.Background(), 100, request.SizerTypeBytes, nil)
	})
	n := 0
	for i, r := range out {
		d := r.(*metricsRequest).md
		if sz := (&pmetric.ProtoMarshaler{}).MetricsSize(d); sz > 100 && d.DataPointCount() != 1 {
			t.Errorf("batch %d: %d bytes > max_size 100 with %d data points", i, sz, d.DataPointCount())
		}
		n += d.DataPointCount()
	}
	if n != 2 {
		t.Errorf("%d data points left the batcher, 2 entered", n)
	}
}
