// Replay of the C01 finding: recovery (retrieveAndEnqueueNotDispatchedReqs) deletes the bodies of
// the previously dispatched items BEFORE it has stored them again. A process death between the
// clean-up storage call and the re-enqueue loses an accepted request for good.
// Injected with `go test -overlay` as .../internal/queuebatch/zz_verif_replay_c01_test.go.
package queuebatch

import (
	"context"
	"errors"
	"testing"

	"github.com/stretchr/testify/require"

	"go.opentelemetry.io/collector/component"
	"go.opentelemetry.io/collector/exporter/exporterhelper/internal/storagetest"
	"go.opentelemetry.io/collector/extension/xextension/storage"
)

// dyingClient forwards storage calls until the process "dies": from then on nothing reaches
// storage any more (the observation model of the property: death at a storage-call boundary).
type dyingClient struct {
	storage.Client
	calls, dieAfter int
}

var errDead = errors.New("process is dead")

func (d *dyingClient) alive() bool { d.calls++; return d.calls <= d.dieAfter }

func (d *dyingClient) Get(ctx context.Context, k string) ([]byte, error) {
	if !d.alive() {
		return nil, errDead
	}
	return d.Client.Get(ctx, k)
}

func (d *dyingClient) Set(ctx context.Context, k string, v []byte) error {
	if !d.alive() {
		return errDead
	}
	return d.Client.Set(ctx, k, v)
}

func (d *dyingClient) Batch(ctx context.Context, ops ...*storage.Operation) error {
	if !d.alive() {
		return errDead
	}
	return d.Client.Batch(ctx, ops...)
}

func TestVerifReplayC01RecoveryCrashLosesAcceptedRequest(t *testing.T) {
	// the process may die after ANY storage call of the recovering start; the accepted request must
	// survive every one of these crash points (a duplicate after a crash is allowed, a loss is not)
	for dieAfter := 1; dieAfter <= 8; dieAfter++ {
		ext := storagetest.NewMockStorageExtension(nil)
		base, err := ext.GetClient(context.Background(), component.KindExporter, component.ID{}, "")
		require.NoError(t, err)

		// incarnation 1: accept one request and hand it to a consumer; die before it finishes
		q1 := createTestPersistentQueueWithClient(base)
		require.NoError(t, q1.Offer(context.Background(), uint64(42)))
		_, req, _, ok := q1.Read(context.Background())
		require.True(t, ok)
		require.Equal(t, uint64(42), req)
		// (process dies here: no OnDone, no Shutdown)

		// incarnation 2: recovery runs; the process dies after `dieAfter` storage calls
		dying := &dyingClient{Client: base, dieAfter: dieAfter}
		_ = createTestPersistentQueueWithClient(dying)

		// incarnation 3: a healthy start. The accepted request must still be handed over.
		q3 := createTestPersistentQueueWithClient(base)
		require.GreaterOrEqual(t, q3.Size()+int64(len(q3.currentlyDispatchedItems)), int64(1),
			"death after storage call %d of the recovering start: the accepted request is neither queued nor recoverable", dieAfter)
		_, r, _, ok := q3.Read(context.Background())
		require.True(t, ok)
		require.Equal(t, uint64(42), r, "death after storage call %d: accepted request 42 was lost", dieAfter)
	}
}
