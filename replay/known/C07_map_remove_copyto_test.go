// Replay for the C07 finding in the hand-written pcommon.Map: Remove moves the last entry into the
// hole and shrinks, leaving the old last entry — including its kvlist wrapper pointer — in the tail
// of the backing array; a later CopyTo into that map reuses the tail slot and its wrapper, so two
// entries of the copy share one nested map.
package pcommon

import "testing"

func TestVerifC07MapCopyToAfterRemove(t *testing.T) {
	dest := NewMap()
	dest.PutEmptyMap("a").PutInt("k", 0)
	dest.PutEmptyMap("b").PutInt("k", 0)
	dest.Remove("a") // b moves into slot 0; slot 1 still holds b's wrapper in the tail

	src := NewMap()
	src.PutEmptyMap("p").PutInt("k", 1)
	src.PutEmptyMap("q").PutInt("k", 2)
	src.CopyTo(dest)

	p, _ := dest.Get("p")
	q, _ := dest.Get("q")
	pk, _ := p.Map().Get("k")
	qk, _ := q.Map().Get("k")
	if pk.Int() != 1 || qk.Int() != 2 {
		t.Fatalf("copy of {p:{k:1}, q:{k:2}} is {p:{k:%d}, q:{k:%d}}: two entries share one nested map", pk.Int(), qk.Int())
	}
}
