// Replay of a C01 finding: the read index key is first written by the first dequeue. If the
// process dies after accepting requests but before any request was ever dequeued, the next start
// finds no read index, treats the storage as a brand-new queue, resets BOTH indexes to zero and
// every accepted request is ignored (and later overwritten).
// Injected with `go test -overlay` as .../internal/queuebatch/zz_verif_replay_c01b_test.go.
package queuebatch

import (
	"context"
	"testing"

	"github.com/stretchr/testify/require"

	"go.opentelemetry.io/collector/component"
	"go.opentelemetry.io/collector/exporter/exporterhelper/internal/storagetest"
)

func TestVerifReplayC01AcceptedBeforeFirstReadSurvivesRestart(t *testing.T) {
	ext := storagetest.NewMockStorageExtension(nil)
	client, err := ext.GetClient(context.Background(), component.KindExporter, component.ID{}, "")
	require.NoError(t, err)

	q1 := createTestPersistentQueueWithClient(client)
	for i := uint64(1); i <= 3; i++ {
		require.NoError(t, q1.Offer(context.Background(), i)) // accepted: Offer returned nil
	}
	require.Equal(t, int64(3), q1.Size())
	// process dies here: nothing was ever dequeued, no Shutdown

	q2 := createTestPersistentQueueWithClient(client)
	require.Equal(t, int64(3), q2.Size(), "3 accepted requests vanished: a missing read index made the restart reset the write index")
	_, req, _, ok := q2.Read(context.Background())
	require.True(t, ok)
	require.Equal(t, uint64(1), req)
}
