// Replay of the C02 finding: with block_on_overflow a persistent queue makes a producer whose
// request is larger than the whole capacity wait although the queue is EMPTY (nothing can ever
// wake it); the in-memory queue refuses the same request at once with errSizeTooLarge.
// Injected with `go test -overlay` as .../internal/queuebatch/zz_verif_replay_c02_test.go.
package queuebatch

import (
	"context"
	"testing"
	"time"

	"github.com/stretchr/testify/require"

	"go.opentelemetry.io/collector/component"
	"go.opentelemetry.io/collector/component/componenttest"
	"go.opentelemetry.io/collector/exporter/exporterhelper/internal/storagetest"
	"go.opentelemetry.io/collector/exporter/exportertest"
	"go.opentelemetry.io/collector/pipeline"
)

func TestVerifReplayC02PersistentQueueBlocksOnEmptyQueue(t *testing.T) {
	// reference: the in-memory queue refuses an oversize request immediately
	mq := newMemoryQueue[uint64](memoryQueueSettings[uint64]{sizer: &itemsSizer{}, capacity: 5, blockOnOverflow: true})
	require.ErrorIs(t, mq.Offer(context.Background(), uint64(10)), errSizeTooLarge)

	ext := storagetest.NewMockStorageExtension(nil)
	client, err := ext.GetClient(context.Background(), component.KindExporter, component.ID{}, "")
	require.NoError(t, err)
	pq := newPersistentQueue[uint64](persistentQueueSettings[uint64]{
		sizer: &itemsSizer{}, capacity: 5, blockOnOverflow: true, signal: pipeline.SignalTraces,
		encoding: uint64Encoding{}, id: component.NewID(exportertest.NopType), telemetry: componenttest.NewNopTelemetrySettings(),
	}).(*persistentQueue[uint64])
	pq.initClient(context.Background(), client)
	require.Equal(t, int64(0), pq.Size())

	ctx, cancel := context.WithTimeout(context.Background(), 300*time.Millisecond)
	defer cancel()
	start := time.Now()
	err = pq.Offer(ctx, uint64(10)) // 10 items into an EMPTY queue of capacity 5
	waited := time.Since(start)
	t.Logf("Offer returned %v after %v with queue size %d", err, waited, pq.Size())
	require.Less(t, waited, 250*time.Millisecond, "producer was left blocked while the queue is empty (size=%d): returned only when its context ended: %v", pq.Size(), err)
}
