// Replay for the C08 finding: the hand-written JSON decoder of plog.LogRecord has no case for
// "eventName"/"event_name" (proto field 12), so decoding what the JSON marshaler produced loses
// the event name.
package plog

import "testing"

func TestVerifC08JSONRoundTripKeepsEventName(t *testing.T) {
	ld := NewLogs()
	lr := ld.ResourceLogs().AppendEmpty().ScopeLogs().AppendEmpty().LogRecords().AppendEmpty()
	lr.SetEventName("user.login")
	lr.SetSeverityText("INFO")
	buf, err := (&JSONMarshaler{}).MarshalLogs(ld)
	if err != nil {
		t.Fatal(err)
	}
	got, err := (&JSONUnmarshaler{}).UnmarshalLogs(buf)
	if err != nil {
		t.Fatal(err)
	}
	r := got.ResourceLogs().At(0).ScopeLogs().At(0).LogRecords().At(0)
	if r.SeverityText() != "INFO" {
		t.Fatalf("severity text lost: %s", buf)
	}
	if r.EventName() != "user.login" {
		t.Fatalf("event name lost in JSON round trip: encoded %s, decoded event name %q", buf, r.EventName())
	}
}
