// Replays for the C17 findings: when send_batch_max_size splits inside a resource / scope / metric,
// the split-off part is built from the resource, scope and metric fields by hand and forgets the
// resource and scope schema URLs (all three signals) and the metric metadata.
package batchprocessor

import (
	"testing"

	"go.opentelemetry.io/collector/pdata/plog"
	"go.opentelemetry.io/collector/pdata/pmetric"
	"go.opentelemetry.io/collector/pdata/ptrace"
)

func TestVerifC17SplitLogsKeepsSchemaURLs(t *testing.T) {
	ld := plog.NewLogs()
	rl := ld.ResourceLogs().AppendEmpty()
	rl.SetSchemaUrl("res-schema")
	sl := rl.ScopeLogs().AppendEmpty()
	sl.SetSchemaUrl("scope-schema")
	sl.LogRecords().AppendEmpty()
	sl.LogRecords().AppendEmpty()
	out := splitLogs(1, ld)
	if got := out.ResourceLogs().At(0).SchemaUrl(); got != "res-schema" {
		t.Errorf("split-off logs resource schema URL = %q", got)
	}
	if got := out.ResourceLogs().At(0).ScopeLogs().At(0).SchemaUrl(); got != "scope-schema" {
		t.Errorf("split-off logs scope schema URL = %q", got)
	}
}

func TestVerifC17SplitTracesKeepsSchemaURLs(t *testing.T) {
	td := ptrace.NewTraces()
	rs := td.ResourceSpans().AppendEmpty()
	rs.SetSchemaUrl("res-schema")
	ss := rs.ScopeSpans().AppendEmpty()
	ss.SetSchemaUrl("scope-schema")
	ss.Spans().AppendEmpty()
	ss.Spans().AppendEmpty()
	out := splitTraces(1, td)
	if got := out.ResourceSpans().At(0).SchemaUrl(); got != "res-schema" {
		t.Errorf("split-off traces resource schema URL = %q", got)
	}
	if got := out.ResourceSpans().At(0).ScopeSpans().At(0).SchemaUrl(); got != "scope-schema" {
		t.Errorf("split-off traces scope schema URL = %q", got)
	}
}

func TestVerifC17SplitMetricsKeepsSchemaURLsAndMetadata(t *testing.T) {
	md := pmetric.NewMetrics()
	rm := md.ResourceMetrics().AppendEmpty()
	rm.SetSchemaUrl("res-schema")
	sm := rm.ScopeMetrics().AppendEmpty()
	sm.SetSchemaUrl("scope-schema")
	m := sm.Metrics().AppendEmpty()
	m.SetName("m")
	m.Metadata().PutStr("k", "v")
	g := m.SetEmptyGauge()
	g.DataPoints().AppendEmpty()
	g.DataPoints().AppendEmpty()
	out := splitMetrics(1, md)
	if got := out.ResourceMetrics().At(0).SchemaUrl(); got != "res-schema" {
		t.Errorf("split-off metrics resource schema URL = %q", got)
	}
	if got := out.ResourceMetrics().At(0).ScopeMetrics().At(0).SchemaUrl(); got != "scope-schema" {
		t.Errorf("split-off metrics scope schema URL = %q", got)
	}
	if _, ok := out.ResourceMetrics().At(0).ScopeMetrics().At(0).Metrics().At(0).Metadata().Get("k"); !ok {
		t.Errorf("split-off metric lost its metadata")
	}
}
