// Replay of the C19 finding: the logs scraper controller accounts scraped log records under
// the receiver's METRIC-POINT instruments instead of the log-record instruments.
// Injected with `go test -overlay` as /repo/scraper/scraperhelper/zz_verif_replay_test.go.
package scraperhelper

import (
	"context"
	"testing"
	"time"

	"github.com/stretchr/testify/require"
	"go.opentelemetry.io/otel/sdk/metric/metricdata"

	"go.opentelemetry.io/collector/component"
	"go.opentelemetry.io/collector/component/componenttest"
	"go.opentelemetry.io/collector/consumer/consumertest"
	"go.opentelemetry.io/collector/pdata/plog"
	"go.opentelemetry.io/collector/receiver"
	"go.opentelemetry.io/collector/scraper"
)

func sumOf(t *testing.T, tel *componenttest.Telemetry, name string) int64 {
	m, err := tel.GetMetric(name)
	if err != nil {
		return 0
	}
	s, ok := m.Data.(metricdata.Sum[int64])
	require.True(t, ok)
	var n int64
	for _, dp := range s.DataPoints {
		n += dp.Value
	}
	return n
}

func TestVerifReplayC19ScrapeLogsOwnSignal(t *testing.T) {
	tel := componenttest.NewTelemetry()
	defer func() { _ = tel.Shutdown(context.Background()) }()
	scp, err := scraper.NewLogs(func(context.Context) (plog.Logs, error) {
		ld := plog.NewLogs()
		lrs := ld.ResourceLogs().AppendEmpty().ScopeLogs().AppendEmpty().LogRecords()
		lrs.AppendEmpty()
		lrs.AppendEmpty()
		lrs.AppendEmpty()
		return ld, nil
	})
	require.NoError(t, err)
	tickerCh := make(chan time.Time)
	sink := new(consumertest.LogsSink)
	recv, err := NewLogsController(newTestNoDelaySettings(),
		receiver.Settings{ID: component.MustNewID("receiver"), TelemetrySettings: tel.NewTelemetrySettings(), BuildInfo: component.NewDefaultBuildInfo()},
		sink, addLogsScraper(component.MustNewType("scraper"), scp), WithTickerChannel(tickerCh))
	require.NoError(t, err)
	require.NoError(t, recv.Start(context.Background(), componenttest.NewNopHost()))
	require.Eventually(t, func() bool { return sink.LogRecordCount() >= 3 }, time.Second, 10*time.Millisecond)
	require.NoError(t, recv.Shutdown(context.Background()))
	offered := int64(sink.LogRecordCount())
	accLogs := sumOf(t, tel, "otelcol_receiver_accepted_log_records")
	accPoints := sumOf(t, tel, "otelcol_receiver_accepted_metric_points")
	t.Logf("offered log records=%d accepted_log_records=%d accepted_metric_points=%d", offered, accLogs, accPoints)
	require.Equal(t, offered, accLogs, "accepted log records must be recorded under the logs counter")
	require.Zero(t, accPoints, "a logs operation must not touch the metric-point counters")
}
