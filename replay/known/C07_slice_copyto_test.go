// Replays for the C07 findings on generated pointer slices (representative: plog.LogRecordSlice):
// CopyTo into a destination whose backing array has spare capacity re-used whatever pointers were
// lying in [len, cap) — nil after EnsureCapacity (panic), stale after RemoveIf (two positions of
// the copy share one object, so the copy differs from its source).
package plog

import "testing"

func TestVerifC07CopyToAfterEnsureCapacity(t *testing.T) {
	src := NewLogRecordSlice()
	src.AppendEmpty().SetSeverityText("a")
	src.AppendEmpty().SetSeverityText("b")
	dest := NewLogRecordSlice()
	dest.EnsureCapacity(4)
	func() {
		defer func() {
			if p := recover(); p != nil {
				t.Fatalf("CopyTo into a pre-sized empty slice panicked: %v", p)
			}
		}()
		src.CopyTo(dest)
	}()
	if dest.Len() != 2 || dest.At(0).SeverityText() != "a" || dest.At(1).SeverityText() != "b" {
		t.Fatalf("copy differs from its source")
	}
}

func TestVerifC07CopyToAfterRemoveIf(t *testing.T) {
	src := NewLogRecordSlice()
	for _, s := range []string{"1", "2", "3"} {
		src.AppendEmpty().SetSeverityText(s)
	}
	dest := NewLogRecordSlice()
	for _, s := range []string{"x", "y", "z"} {
		dest.AppendEmpty().SetSeverityText(s)
	}
	dest.RemoveIf(func(lr LogRecord) bool { return lr.SeverityText() == "y" }) // [x z], stale tail
	src.CopyTo(dest)
	got := ""
	for i := 0; i < dest.Len(); i++ {
		got += dest.At(i).SeverityText()
	}
	if got != "123" {
		t.Fatalf("copy of [1 2 3] into a previously filtered slice is [%s]", got)
	}
	dest.At(1).SetSeverityText("changed")
	if dest.At(2).SeverityText() != "3" {
		t.Fatalf("two positions of the copy share one object")
	}
}
