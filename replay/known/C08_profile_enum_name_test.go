// Replay for the C08 finding: the JSON decoder of a profile ValueType reads the enum
// aggregation_temporality with ReadInt32, so the value written as a NAME (which every other enum
// field of the data model accepts) is rejected.
package pprofile

import "testing"

func TestVerifC08ProfileEnumAcceptsNames(t *testing.T) {
	byNumber := `{"resourceProfiles":[{"scopeProfiles":[{"profiles":[{"sampleType":[{"aggregationTemporality":1}]}]}]}]}`
	byName := `{"resourceProfiles":[{"scopeProfiles":[{"profiles":[{"sampleType":[{"aggregationTemporality":"AGGREGATION_TEMPORALITY_DELTA"}]}]}]}]}`
	get := func(js string) (AggregationTemporality, error) {
		p, err := (&JSONUnmarshaler{}).UnmarshalProfiles([]byte(js))
		if err != nil {
			return 0, err
		}
		return p.ResourceProfiles().At(0).ScopeProfiles().At(0).Profiles().At(0).SampleType().At(0).AggregationTemporality(), nil
	}
	n, err := get(byNumber)
	if err != nil || n != AggregationTemporalityDelta {
		t.Fatalf("number form: %v %v", n, err)
	}
	m, err := get(byName)
	if err != nil || m != n {
		t.Fatalf("enum written as a name gives %v (%v), written as a number gives %v", m, err, n)
	}
}
